#!/usr/bin/env python3
"""Writes /verif/MANIFEST.json from the table below (run: python3 -m kit.manifest)."""
import json
import os

VERIF = os.path.dirname(os.path.dirname(os.path.abspath(__file__)))

CLAIMED = {
    'C05': {
        'category': 'proof',
        'text': 'Verus proves, for every element type, every state and every call, the contracts of all functions of unification.rs '
                '(both copies, text cut from /repo on every run): root/root_const return the class representative and leave every class '
                'unchanged (path compression invisible), union_roots_into merges exactly the two classes, increase_size_to adds singletons; '
                'corollary lemmas give idempotence of root and the closed form of the generated equivalence per equate call. '
                'A bounded native sweep of the same contracts on the real struct is the replay searcher.',
        'design_ref': '§5.1, §6 C05',
        'note': 'Assumes: T-laws for the element type (Into/From<u32> inverse, structural ==), usize 64-bit, Verus/Z3/rustc. The generated wrappers '
                '(equate_/root_/are_equal_/new_/insert_/define_/evaluation functions) are covered by unit GEN only when it is listed in the evidence, '
                'there against an assumed PrefixTreeN::iter contract; iterator queries (iter_*) are bounded-checked only.',
        'technique': 'contract-based deductive verification (Verus) of extracted real code; bounded native contract execution as replay',
    },
}

CLAIMED['C14'] = {
    'category': 'proof',
    'text': 'Verus proves on the real text of wbtree/map.rs (cut from /repo on every run) that the listed Node::* and WBTreeMap::* functions '
            'preserve the representation invariant wf = BST order + exact cached sizes + weight balance at every node (DELTA=3, GAMMA=2) + '
            'len == node count, and that their result equals the corresponding finite-map operation on the abstract view, for all trees '
            'and all keys, with termination, overflow- and panic-freedom: insert, remove, get, get_mut (prophecy cursor through Rc::make_mut), '
            'contains_key, len, is_empty, clear, union and difference (callbacks receive (key, left value, right value)), the entry API, all of set.rs '
            'including WBTreeSet::iter and WBTreeSetIter::next, '
            'shared iteration (Iter::next obeys the iterator laws in every state, iter() yields exactly the entries in increasing key order), '
            'and the height bound 4^h <= 3^h (n+1). Outside the proved set: IterMut/iter_mut (unsafe raw pointers) and mapped -- covered only '
            'by the bounded native sweep against BTreeMap on clone families, which is reported separately and never counted as proof.',
    'design_ref': '§5.2, §6 C14',
    'note': 'Assumes the std specifications listed in trusted_base (Rc::make_mut etc.), structural derived Clone, usize 64-bit. '
            'Persistence follows from Verus value semantics of Rc<T> + the make_mut specification. Bounded part: see coverage.bounded_parts.',
    'technique': 'contract-based deductive verification (Verus) of extracted real code; bounded native contract execution for iterators and as replay',
}

CLAIMED['C08'] = {
    'category': 'proof',
    'text': 'Verus proves on the real text of prefix_tree.rs, for every arity 0..9 and for new/insert/contains/remove/is_empty/clear/get/get_mut/'
            'union/difference/insert_restriction/remove_restriction/mapped, that the container equals the corresponding operation on a mathematical set '
            'of tuples and preserves the invariant "inner map well-formed, every subtree well-formed, no key maps to an empty subtree" (on which '
            'is_empty and prefix lookups rely); mapped (element-wise mapping through graphs, loops over the proved WBTreeMap/WBTreeSet iterators) returns '
            'exactly the set of component-wise images, dropping tuples with a component outside a map; the entry API and set.rs (including its iterator) '
            'are proved in the same run on top of the WBTreeMap core contracts. '
            'Iteration order/duplicates of PrefixTreeN::iter and prefix iteration (iter_restrictions) cannot be put under a contract (iterator adapters '
            'map/flat_map) and are covered by the bounded native sweep against BTreeSet, reported separately.',
    'design_ref': '§5.3, §6 C08',
    'note': 'Rests on the WBTreeMap core contracts (assumed here, discharged in C14 where listed), structural Clone, pure callbacks. '
            'Bounded part: coverage.bounded_parts.',
    'technique': 'contract-based deductive verification (Verus) of extracted real code on top of callee contracts; bounded native contract execution for iterators',
}

CLAIMED['C16'] = {
    'category': 'exploration',
    'text': 'Bounded: the real to_semi_naive and sort_premise (files included from /repo) are run on every premise of length <= 5 (quick) / 6 (thorough) over a pool '
            'of 8 atoms and their executable contracts are checked, including the property itself on the emitted family (for every new/old labelling exactly '
            'one sorted sub-rule accepts iff some atom is new). Neither Verus (iterator pipelines, format!) nor Kani (43 GB on 3 atoms) can take these functions. '
            'Separately, Verus proves the counting statement for ALL premise lengths over the age matrix the contract prescribes (unit SNL); that lemma is not '
            'a proof about the code and the check is therefore claimed as exploration.',
    'design_ref': '§5.5, §6 C16',
    'note': 'Bounded stand-in, never counted as proved. Not covered: the step from ages to index fields (needs a real Eqlog), the implicit functionality rule '
            '(shape covered by a lemma only). eqlog_eqlog is shimmed; itertools is the real crate.',
    'technique': 'bounded native execution of executable contracts on the real functions + a Verus lemma over the contract (labelled bounded)',
}
CLAIMED['C18'] = {
    'category': 'exploration',
    'text': 'Bounded only: the real morphism_toposort on real PrefixTrees for every multigraph with <= 3 objects and <= 3 (quick) / 4 (thorough) morphisms x every '
            'new/old split of the three tables, against a DFS oracle and the order/contents contract. The function is one body of chain/map/collect over BTreeMap and '
            'VecDeque that Verus rejects and Kani did not finish on a one-morphism instance.',
    'design_ref': '§5.5, §6 C18',
    'note': 'Bounded stand-in, never counted as proved. Split independence is read as independence of Ok/Err and of the set of returned morphisms (see evidence assumptions).',
    'technique': 'bounded native execution of an executable contract on the real function (labelled bounded)',
}
CLAIMED['C01'] = {
    'category': 'exploration',
    'text': 'Bounded and partial, on the modules the compiler (built from the current tree) emits for the probe theories: after every close() (and every close_until() that returns false) in every '
            'explored history, every flat rule of the program holds in the model -- for every assignment of canonical elements under which all premise atoms hold (matched against the '
            'iterators), every conclusion holds (the tuple is reported by the point query, the two elements are equal, the function is defined), and every function is single-valued. The rules '
            'are the flat rules the compiler itself prints above each emitted rule function (one per sub-rule family, plus the implicit functionality rules): the check covers premise sorting, '
            'index selection, RAM lowering, code generation, the semi-naive loop and the runtime, not the flattening front end. Neither verifier can take the generated loop or the rule '
            'functions (extern "Rust", runtime iterators), so this is the bounded stand-in for the postcondition of close().',
    'design_ref': '§6 C01',
    'note': 'Bounded stand-in, labelled exploration, never counted as proved. Programs are sampled (17 probe theories); source-level rule semantics (nested terms, premise equalities) are not '
            're-derived -- the flat rule is trusted as the statement of the rule.',
    'technique': 'bounded native execution of an executable postcondition of the generated close on emitted probe modules (labelled bounded)',
}
CLAIMED['C02'] = {
    'category': 'exploration',
    'text': 'Bounded, on the modules the compiler (built from the current tree) emits for the probe theories: after every close() in every explored history the model is isomorphic, by a map that '
            'fixes every element the caller created, to the least model computed by an independent reference -- a naive chase of the program\'s flat rules over the asserted facts and equalities '
            '(plain tuple sets + union-find, no indices, no ages, written for this check). Hence no tuple, equality or element exists that the rules do not force, and no second element exists for '
            'a term that is already defined (and nothing is missing). The rules are the flat rules the compiler prints above each emitted rule function, so the flattening front end is not '
            'covered. Neither verifier can take the generated loop or the rule functions; this is the bounded stand-in.',
    'design_ref': '§6 C02',
    'note': 'Bounded stand-in, labelled exploration, never counted as proved. Programs are sampled (the probes).',
    'technique': 'bounded native execution of the generated close against an independent naive chase of the flat rules (labelled bounded)',
}
CLAIMED['C03'] = {
    'category': 'exploration',
    'text': 'Bounded, on the modules the compiler (built from the current tree) emits for the probe theories: the property is decided as a postcondition of the generated close() -- '
            'after every close() in every explored history (assertions over 3 elements per type interleaved with close() and close_until()) the model is isomorphic, by a map '
            'fixing the caller\'s elements, to a fresh model on which the same assertions were replayed without intermediate close (same order; and reverse order with every '
            'assertion made twice) and closed once; closing a closed model changes nothing. Neither verifier can take the generated loop (rule functions behind extern "Rust", '
            'runtime iterators), so this is the bounded stand-in; the reference is the implementation itself on a canonical history, not an independent chase.',
    'design_ref': '§6 C03',
    'note': 'Bounded stand-in, labelled exploration, never counted as proved. Programs are sampled (the probes). A defect common to all histories is invisible (C01/C02 not claimed).',
    'technique': 'bounded native execution of an executable postcondition of the generated close on emitted probe modules (labelled bounded)',
}
CLAIMED['C06'] = {
    'category': 'exploration',
    'text': 'Bounded and partial, on the modules emitted for the probe theories WITHOUT non-surjective conclusions: in every explored history close()/close_until() returned and '
            'allocated no element id of any type (so the number of classes cannot grow). Termination itself is a liveness claim no contract decides; it is only observed on the '
            'explored runs. The compile-time half is checked as black-box verdicts only (15 programs without `!`: 8 must be rejected, 7 neighbours accepted); the surjectivity analysis itself is not under contract. The runtime mechanism "emptiness tests are exact" is proved under C08, is_dirty exactness under C04.',
    'design_ref': '§6 C06',
    'note': 'Bounded stand-in, labelled exploration, never counted as proved.',
    'technique': 'bounded native execution of an executable postcondition of the generated close on emitted probe modules (labelled bounded)',
}
CLAIMED['C07'] = {
    'category': 'exploration',
    'text': 'Bounded, on the modules the compiler (built from the current tree) emits for the probe theories: the real generated close_until/close are driven through operation '
            'sequences (assertions over 3 elements per type interleaved with close(), close_until(k-th evaluation), close_until(iter_<rel> yields >= n tuples)) and the '
            'executable contract of close_until is checked: it returns true only in a state in which the condition holds, false only in a state in which it does not hold and which '
            'is closed (closing again changes nothing), and after every close() / close_until()==false the model is isomorphic, by a map fixing the caller\'s elements, to a '
            'fresh model on which the same assertions were replayed and closed ONCE (resumption after an early return; probe p5 has non-surjective rules, so function '
            'definitions are pending when close_until stops early). Part GEN-close (when listed in the evidence) additionally proves with Verus, on the emitted text of '
            'close_until and close, the return-value half for all states: true is returned only directly after the condition returned true and false only directly after '
            'is_dirty() returned false, with no state change in between.',
    'design_ref': '§5.4, §6 C07',
    'note': 'Bounded stand-in, labelled exploration, never counted as proved: close_until calls rule functions behind extern "Rust" and loop code over runtime iterators '
            '(canonicalize, apply_*), which neither Verus nor Kani can take. Programs are sampled (the probes). Found F3 (fixed in /repo baef87b, see known-findings.json).',
    'technique': 'bounded native execution of the executable contract of the generated close_until on emitted probe modules (labelled bounded)',
}
CLAIMED['C11'] = {
    'category': 'exploration',
    'text': 'Bounded and partial: the real diagnostic renderer (source_display.rs, Location::intersect and whipe_comments cut from their files) is run on every text of <= 5 '
            '(quick) / 6 (thorough) symbols over {a, space, /, LF, CRLF, e-acute} x every location the parse-error conversion can produce; it must not panic, must '
            'name the line containing the position and print only complete input lines. The parser and the semantic passes are not covered. '
            'Verus additionally proves Location::intersect (the interval arithmetic under the renderer) against interval intersection (unit LOC).',
    'design_ref': '§5.5, §6 C11',
    'note': 'Bounded stand-in, never counted as proved; str/format! code is outside Verus. Found F4 (fixed in bbcda61).',
    'technique': 'bounded native execution of an executable contract on the real functions (labelled bounded)',
}

CLAIMED['C04'] = {
    'category': 'proof',
    'text': 'For the module the compiler (built from the current tree) emits for each probe theory, Verus proves on the emitted text that a GENERATED '
            'representation invariant -- every index copy of a relation (each column order, new/old, each diagonal pattern) is the image of its primary '
            'copy, diagonal copies hold exactly the rows satisfying all their equalities, stored components are existing elements, the type sets hold '
            'exactly one representative per class -- is established by new() and preserved by every straight-line mutator (insert_<rel>, equate_<type>, '
            'new_<type>, define_<func>) and by move_new_to_old (against an assumed PrefixTreeN::iter contract), that point queries and evaluation functions '
            'equal membership of the root tuple in the abstract relation (hence agree for equal arguments), and that is_dirty is exact. The invariant includes '
            'the new/old partition (no tuple in both ages) and the per-element row lists (every row is listed under each of its components). '
            'Partial: canonicalize, recompute_model_indices, close/close_until, the iterators and enum case queries are outside Verus; the statements about '
            'the state after close()/close_until() are covered ONLY by the bounded native sweep of the emitted modules (generated harness), reported '
            'separately. Programs are sampled (6 probe theories), states/arguments/histories universal.',
    'design_ref': '§5.4, §6 C04',
    'note': 'Assumes the runtime contracts (UF, PT units), structural derives of the newtypes, the field naming convention. See evidence.assumptions.',
    'technique': 'contract-based deductive verification (Verus) of emitted code with generated contracts, per probe program',
}
CLAIMED['C05']['text'] = CLAIMED['C05']['text'] + ' Unit GEN additionally proves, on the module emitted for each probe theory, that the generated wrappers use it correctly: ' \
    'root_ returns the representative, are_equal_ compares representatives, equate_ merges exactly the two classes (closed form of the generated equivalence), ' \
    'new_ returns a fresh singleton element, insert_ makes the tuple visible to the point query immediately for every argument of the same classes, '\
    'the evaluation function returns Some(y) exactly when the row is present (real text, closures with `?`), define_ returns the existing value or a fresh element.'

CLAIMED['C09'] = {
    'category': 'exploration',
    'text': 'Bounded: for the sampled theories (the probe theories; in the thorough tier also every theory of eqlog-test-eval/src) the compiler built from the current tree runs in '
            'module mode and in component mode without panicking, rustc accepts the emitted module in both modes, and in component mode the compiler compiles every component library. '
            '"rustc accepts the emitted text" is not a postcondition over Display implementations that a verifier here could discharge; deciding it means running rustc on outputs, which is '
            'what this bounded stand-in does on sampled programs.',
    'design_ref': '§6 C09',
    'note': 'Bounded stand-in, labelled exploration, never counted as proved. Programs are sampled; identifiers colliding with generator names and relations above 9 columns are not explored.',
    'technique': 'bounded execution of the compiler and rustc on sampled programs in both build modes (labelled bounded)',
}
CLAIMED['C13'] = {
    'category': 'exploration',
    'text': 'Bounded: the compiler built from the current tree is run on the probe theories twice in module mode (different input and output directories) and twice in component mode '
            '(RAYON_NUM_THREADS=1 and 8); every generated text file -- module sources, component sources, digest files -- must be byte-identical between the two runs of a mode. '
            'A hyperproperty over runs and thread schedules of the whole compiler is not a contract any verifier here can discharge; this is the bounded stand-in.',
    'design_ref': '§6 C13',
    'note': 'Bounded stand-in, labelled exploration, never counted as proved. Compiled libraries are not compared; a difference that needs a particular schedule may not show in two runs.',
    'technique': 'bounded execution of the compiler (two runs per build mode), generated text files compared (labelled bounded)',
}
CLAIMED['C15'] = {
    'category': 'exploration',
    'text': 'Bounded and partial, on the modules emitted for the probe theories with enum types: after every close() in every explored history every element of an enum type destructures '
            'into at least one constructor case (<enum>_case cannot panic), <enum>_cases lists exactly the constructor applications equal to the element, and new_<enum>(Case) returns the '
            'value of that constructor application (existing or fresh). The static half (no accepted rule can make a non-constructor term defined in an enum type) is checked as black-box verdicts only: 8 programs that '
            'must be rejected, 5 neighbours that must be accepted, and a scan of the emitted enum API; the Datalog check itself is not under contract.',
    'design_ref': '§6 C15',
    'note': 'Bounded stand-in, labelled exploration, never counted as proved, plus one proof part: new_<enum>(value: <Enum>Case) is proved by Verus on the emitted text of the enum probes (part GEN-enum: returns the value of the constructor application named by the case, existing or fresh; invariant preserved) for all states and arguments. Two enum probes.',
    'technique': 'bounded native execution of executable contracts of the generated enum API on emitted probe modules + must-reject/must-accept compiler verdicts (labelled bounded); Verus on the emitted new_<enum> (contract-based deductive verification, per probe program)',
}
CLAIMED['C19'] = {
    'category': 'exploration',
    'text': 'Bounded: the compiler built from the current tree compiles the probe theories as single modules and as modules plus one component library per rule; the generated harness is '
            'linked against the component libraries the way the build script does, and the whole sweep of API histories is run against both builds: the transcripts (element ids, iterator '
            'outputs in order, query results) must be identical and neither build may fail a contract the other passes. The clauses about identical environment declarations and '
            'exported/imported symbols are decided only through linking and behaviour, not by comparing text. A statement about two emitted texts and a linker boundary is not a contract '
            'a verifier here can discharge; this is the bounded stand-in.',
    'design_ref': '§6 C19',
    'note': 'Bounded stand-in, labelled exploration, never counted as proved. Programs are sampled (the probes).',
    'technique': 'bounded native execution of the generated API against both build modes, transcripts compared (labelled bounded)',
}
CLAIMED['C20'] = {
    'category': 'exploration',
    'text': 'Bounded: the whole sweep of the modules emitted for the probe theories (tens of thousands of API call sequences) is executed twice in two separate processes and a digest of '
            'everything observable -- element ids returned, the output of every iterator in iteration order, query results, after every call -- must be identical. No contract can state '
            '"does not depend on addresses, hashing seeds, time or scheduling" for generated loop code that no verifier takes; this is the bounded stand-in. (Corollary of the proof units: '
            'every runtime operation under contract equals a mathematical function of its abstract arguments.)',
    'design_ref': '§6 C20',
    'note': 'Bounded stand-in, labelled exploration, never counted as proved. Time and thread scheduling are not varied.',
    'technique': 'bounded native execution (two processes) of the generated API on emitted probe modules, transcripts compared (labelled bounded)',
}

NOT_APPLICABLE = {
    'C10': 'the static checks are ~300 eqlog rules interpreted by generated code; there is no Rust function whose contract is the reference semantics',
    'C12': 'state is a directory tree mutated through std::fs and a rustc child process, quantified over crash points; every callee is external',
    'C17': 'recompute_model_indices is generated loop code over iter_restrictions_mut/LazyCell/mapped; its runtime ingredients are covered under C08/C18',
    # not yet built (will move to CLAIMED as units land)
}


def main():
    checks = []
    for pid in sorted(CLAIMED):
        c = CLAIMED[pid]
        checks.append({
            'property_id': pid,
            'quick_cmd': 'bin/check %s quick' % pid,
            'thorough_cmd': 'bin/check %s thorough' % pid,
            'evidence_file': '/verif/evidence/%s.json' % pid,
            'replay_cmd_template': 'bin/check %s --replay {path}' % pid,
            'engine': 'verus-extract',
            'level_claimed': {'category': c['category'], 'text': c['text'], 'design_ref': c['design_ref']},
            'level_note': c['note'],
            'technique': c['technique'],
        })
    m = {
        'version': 1,
        'setup_cmd': 'python3 -m kit.selftest',
        'hooks': {
            'guard': 'none',
            'enable': 'no hooks: the checks read /repo and build scratch crates outside it',
            'baseline_off_cmd': 'cd /repo && cargo test --workspace --no-fail-fast --offline',
            'source_commits': [],
            'add_only': True,
        },
        'engines': [{
            'name': 'verus-extract', 'path': '/verif/kit',
            'serves_properties': sorted(CLAIMED),
            'kind_free_text': 'mechanical extraction of real functions from /repo + insertion-only contracts, verified by Verus; native bounded execution of the same contracts as replay searcher / bounded stand-in',
        }],
        'checks': checks,
        'not_applicable': [{'property_id': k, 'reason': v} for k, v in sorted(NOT_APPLICABLE.items()) if k not in CLAIMED],
        'notes': 'exit 2 + UNDECIDED line = the check could not decide (lost anchor, unsupported construct, resource limit); never an alarm.',
    }
    with open(os.path.join(VERIF, 'MANIFEST.json'), 'w') as f:
        json.dump(m, f, indent=1)
    print('wrote MANIFEST.json: %d checks, %d not_applicable' % (len(checks), len(m['not_applicable'])))


if __name__ == '__main__':
    main()
