"""Bounded stand-in / replay searcher for unit GEN: the module the compiler emits for each probe theory is compiled
(rustc, against a fresh build of eqlog-runtime from /repo) together with GENERATED harness code that
  * reads the private index fields from inside the emitted module (`verif_check`: the executable form of the generated
    representation invariant of kit/gen.py), and
  * drives the public API with operation sequences against a reference (union-find + tuple sets), checking the
    statements of C05 before a close and those of C04 after every close.
Never counted as proof."""
import json
import os
import re
import subprocess

from . import driver
from . import gen as G


def rust_vec(elems):
    return 'vec![%s]' % ', '.join(elems)


def model_code(m, path, rules_text=None):
    """Rust source of `mod <m>` = emitted module + probe impl + driver glue"""
    name, mod = m.name, m.name.lower()
    L = []
    A = L.append
    A('#[allow(unused, non_snake_case, dead_code)]')
    A('pub mod %s {' % mod)
    A('include!(%s);' % json.dumps(path))
    A('use std::collections::BTreeSet as VSet;')
    A('impl %s {' % name)
    A('    /// executable form of the generated representation invariant (see kit/gen.py: ghost_impl)')
    A('    pub fn verif_check(&self) -> Result<(), String> {')
    for t, T in m.types.items():
        A('        let n_%s = self.%s_equalities.len();' % (t, t))
        A('        if self.%s_weights.len() != n_%s { return Err(format!("%s_weights has {} entries for {} elements -- weights", self.%s_weights.len(), n_%s)); }' % (t, t, t, t, t))
        A('        let roots_%s: VSet<u32> = (0..n_%s as u32).filter(|i| self.%s_equalities.root_const(%s::from(*i)) == %s::from(*i)).collect();' % (t, t, t, T, T))
        ts = m.typesets.get(t, {})
        chain = '.chain('.join('self.%s.iter()' % f for f in ts.values()) + ')' * (len(ts) - 1)
        A('        let ts_list_%s: Vec<u32> = %s.map(|s| s[0]).collect();' % (t, chain))
        A('        let ts_%s: VSet<u32> = ts_list_%s.iter().cloned().collect();' % (t, t))
        A('        if ts_%s.len() != ts_list_%s.len() { return Err(format!("an element of type %s is in both the new and the old type set -- typeset")); }' % (t, t, t))
        A('        if ts_%s != roots_%s { return Err(format!("type sets of %s hold {:?} but the class representatives are {:?} -- typeset", ts_%s, roots_%s)); }' % (t, t, t, t, t))
    for r in m.rels:
        n = len(m.rels[r])
        tys = m.rel_types[r]
        for age in ('new', 'old'):
            p = m.primary(r, age)
            # canonical tuple from a stored tuple of the primary copy
            mm, a = G.copy_index_map(m, p)
            A('        let t_%s_%s: VSet<Vec<u32>> = self.%s.iter().map(|s| %s).collect();' % (r, age, p.field, rust_vec(['s[%d]' % x for x in a])))
            for c in m.copies:
                if c.rel != r or c.age != age or c is p:
                    continue
                cond = G.diag_condition(m, c, ['t[%d]' % i for i in range(n)]) if c.eqs is not None else 'true'
                st = G.stored_of_canonical(m, c, ['t[%d]' % i for i in range(n)])
                A('        { let got: VSet<Vec<u32>> = self.%s.iter().map(|s| s.to_vec()).collect();' % c.field)
                A('          let want: VSet<Vec<u32>> = t_%s_%s.iter().filter(|t| %s).map(|t| %s).collect();' % (r, age, cond, rust_vec(st)))
                A('          if got != want { return Err(format!("index copy %s holds {:?} but the image of the primary copy is {:?} -- copy", got, want)); } }' % c.field)
        A('        if let Some(t) = t_%s_new.intersection(&t_%s_old).next() { return Err(format!("tuple {:?} of %s is in the new and in the old copy -- newold", t)); }' % (r, r, r))
        for i in range(n):
            A('        for t in t_%s_new.iter().chain(t_%s_old.iter()) { if t[%d] as usize >= n_%s { return Err(format!("tuple {:?} of %s mentions an element that does not exist -- bounds", t)); } }' % (r, r, i, tys[i], r))
    A('        Ok(())')
    A('    }')
    A('}')
    # ---- driver glue: generic operations dispatched to the model-specific API
    funcs = [r for r in m.rels if re.search(r'pub fn %s\(&self,[^)]*\) -> Option<' % re.escape(r), m.impl.orig)]
    defs = [r for r in funcs if ('pub fn define_%s(' % r) in m.impl.orig]
    preds = [r for r in m.rels if r not in funcs]
    plain_new = [t for t in m.types if ('pub fn new_%s(&mut self, )' % t) in m.impl.orig]
    tlist = list(m.types)
    A('pub const TYPES: &[&str] = &[%s];' % ', '.join(json.dumps(t) for t in tlist))
    A('pub const PLAIN_NEW: &[bool] = &[%s];' % ', '.join('true' if t in plain_new else 'false' for t in tlist))
    A('pub const RELS: &[(&str, &[usize], bool, bool)] = &[%s];' % ', '.join('(%s, &[%s], %s, %s)' % (json.dumps(r), ', '.join(str(tlist.index(x)) for x in m.rel_types[r]), 'true' if r in funcs else 'false', 'true' if r in defs else 'false') for r in m.rels))
    A('pub const HAS_NONSURJECTIVE_RULES: bool = %s;' % ('true' if re.search(r'^// - \w+Def\(', getattr(m, 'rules_text', None) or m.src.text, re.M) else 'false'))
    A('pub type VM__ = %s;' % name)
    A('pub fn new_model() -> VM__ { VM__::new() }')
    A('pub fn count(m: &VM__, ty: usize) -> usize { match ty { %s _ => unreachable!() } }' % ' '.join('%d => m.%s_equalities.len(),' % (i, t) for i, t in enumerate(tlist)))
    A('pub fn new_el(m: &mut VM__, ty: usize) -> u32 { match ty { %s _ => unreachable!() } }' % ' '.join('%d => m.new_%s().0,' % (i, t) if t in plain_new else '%d => unreachable!(),' % i for i, t in enumerate(tlist)))
    A('pub fn root(m: &VM__, ty: usize, x: u32) -> u32 { match ty { %s _ => unreachable!() } }' % ' '.join('%d => m.root_%s(%s(x)).0,' % (i, t, m.types[t]) for i, t in enumerate(tlist)))
    A('pub fn are_equal(m: &VM__, ty: usize, x: u32, y: u32) -> bool { match ty { %s _ => unreachable!() } }' % ' '.join('%d => m.are_equal_%s(%s(x), %s(y)),' % (i, t, m.types[t], m.types[t]) for i, t in enumerate(tlist)))
    A('pub fn equate(m: &mut VM__, ty: usize, x: u32, y: u32) { match ty { %s _ => unreachable!() } }' % ' '.join('%d => m.equate_%s(%s(x), %s(y)),' % (i, t, m.types[t], m.types[t]) for i, t in enumerate(tlist)))
    A('pub fn iter_ty(m: &VM__, ty: usize) -> Vec<u32> { match ty { %s _ => unreachable!() } }' % ' '.join('%d => m.iter_%s().map(|x| x.0).collect(),' % (i, t) for i, t in enumerate(tlist)))

    def args(r, k):
        return ', '.join('%s(a[%d])' % (m.rels[r][i], i) for i in range(k))
    rl = list(m.rels)
    A('pub fn insert(m: &mut VM__, rel: usize, a: &[u32]) { match rel { %s _ => unreachable!() } }' % ' '.join('%d => m.insert_%s(%s),' % (i, r, args(r, len(m.rels[r]))) for i, r in enumerate(rl)))
    A('pub fn holds(m: &VM__, rel: usize, a: &[u32]) -> bool { match rel { %s _ => unreachable!() } }' % ' '.join(
        ('%d => m.%s(%s) == Some(%s(a[%d])),' % (i, r, args(r, len(m.rels[r]) - 1), m.rels[r][-1], len(m.rels[r]) - 1)) if r in funcs else ('%d => m.%s(%s),' % (i, r, args(r, len(m.rels[r])))) for i, r in enumerate(rl)))
    A('pub fn eval(m: &VM__, rel: usize, a: &[u32]) -> Option<u32> { match rel { %s _ => None } }' % ' '.join('%d => m.%s(%s).map(|x| x.0),' % (i, r, args(r, len(m.rels[r]) - 1)) for i, r in enumerate(rl) if r in funcs))
    A('pub fn define(m: &mut VM__, rel: usize, a: &[u32]) -> u32 { match rel { %s _ => unreachable!() } }' % ' '.join('%d => m.define_%s(%s).0,' % (i, r, args(r, len(m.rels[r]) - 1)) for i, r in enumerate(rl) if r in defs))

    def tup(r):
        k = len(m.rels[r])
        if k == 0:
            return 'vec![]'
        if k == 1 and r not in funcs:
            return 'vec![t.0]'
        return rust_vec(['t.%d.0' % i for i in range(k)])

    def iter_expr(r):
        k = len(m.rels[r])
        if k == 0:
            return 'if m.%s() { vec![vec![]] } else { vec![] }' % r
        if k == 1:
            return 'm.iter_%s().map(|t| vec![t.0]).collect()' % r
        return 'm.iter_%s().map(|t| %s).collect()' % (r, rust_vec(['t.%d.0' % i for i in range(k)]))
    A('pub fn iter_rel(m: &VM__, rel: usize) -> Vec<Vec<u32>> { match rel { %s _ => unreachable!() } }' % ' '.join('%d => %s,' % (i, iter_expr(r)) for i, r in enumerate(rl)))
    # enum case queries: <t>_cases(el) must list exactly the constructor applications that evaluate to el
    enums = {}
    for t, T in m.types.items():
        em = re.search(r'pub enum %sCase \{([^}]*)\}' % T, m.src.text)
        if em:
            ctors = []
            for cm in re.finditer(r'(\w+)\(([^)]*)\)', em.group(1)):
                snake = re.sub(r'(?<!^)(?=[A-Z])', '_', cm.group(1)).lower()
                nargs = len([x for x in cm.group(2).split(',') if x.strip()])
                if snake in rl:
                    ctors.append((cm.group(1), rl.index(snake), nargs))
            enums[t] = ctors
    arms = []
    for i, t in enumerate(tlist):
        if t in enums:
            T = m.types[t]
            vs = ' '.join('%sCase::%s(%s) => (%d, vec![%s]),' % (T, c, ', '.join('a%d' % k for k in range(n)), ri, ', '.join('a%d.0' % k for k in range(n))) for c, ri, n in enums[t])
            arms.append('%d => Some(m.%s_cases(%s(x)).map(|c| match c { %s }).collect()),' % (i, t, T, vs))
    A('pub fn cases(m: &VM__, ty: usize, x: u32) -> Option<Vec<(usize, Vec<u32>)>> { match ty { %s _ => None } }' % ' '.join(arms))
    A('pub const CTORS: &[(usize, usize)] = &[%s];' % ', '.join('(%d, %d)' % (tlist.index(t), ri) for t in enums for _, ri, _ in enums[t]))
    # new_<enum>(<Enum>Case::<Ctor>(args)) -- the public way to create an element of an enum type (C15)
    narms = []
    for t in enums:
        T = m.types[t]
        for c, ri, n in enums[t]:
            r = rl[ri]
            narms.append('%d => m.new_%s(%sCase::%s(%s)).0,' % (ri, t, T, c, ', '.join('%s(a[%d])' % (m.rels[r][i], i) for i in range(n))))
    A('pub fn new_enum(m: &mut VM__, rel: usize, a: &[u32]) -> u32 { match rel { %s _ => unreachable!() } }' % ' '.join(narms))
    # ---- the flat rules of the program, parsed from the comments above the emitted rule functions (C01: closedness)
    A(rules_code(m, rl, tlist, funcs))
    A('pub fn close(m: &mut VM__) { m.close() }')
    A('pub fn close_until(m: &mut VM__, cond: &dyn Fn(&VM__) -> bool) -> bool { m.close_until(|x| cond(x)) }')
    A('pub fn check(m: &VM__) -> Result<(), String> { m.verif_check() }')
    A('}')
    return '\n'.join(L) + '\n'


def snake(name):
    return re.sub(r'(?<!^)(?=[A-Z])', '_', name).lower()


def rules_code(m, rl, tlist, funcs):
    """`pub const RULES: &[Rule]` -- one entry per sub-rule family (and per implicit functionality rule): premise atoms and conclusions over
    numbered variables, taken from the flat-rule comments of the emitted module (ages dropped)"""
    from . import emit_sn
    subs, _ = emit_sn.parse_module(getattr(m, 'rules_text', None) or m.src.text)
    camel_types = {T: i for i, (t, T) in enumerate(m.types.items())}
    seen = set()
    out = []
    skipped = []
    for s in subs:
        key = s['family'] if s['family'] else s['name']
        if key in seen:
            continue
        seen.add(key)
        name = '%s_%d' % s['family'] if s['family'] else s['name']
        vars_ = {}

        def v(x):
            x = x.strip()
            if x not in vars_:
                vars_[x] = len(vars_)
            return vars_[x]
        prem, conc = [], []
        ok = True
        for atom, _age in s['atoms']:
            am = re.match(r'^(\w+?)(?:\[diag=([0-9,]+)\])?\((.*)\)$', atom)
            if not am:
                ok = False
                break
            nm, diag, args = am.group(1), am.group(2), [a for a in am.group(3).split(',') if a.strip()]
            if nm.endswith('Set') and nm[:-3] in camel_types and snake(nm) not in rl:
                prem.append('RAtom { is_type: true, idx: %d, cols: &[%d] }' % (camel_types[nm[:-3]], v(args[0])))
                continue
            if snake(nm) not in rl:
                ok = False
                break
            if diag:
                d = [int(x) for x in diag.split(',')]
                kept = [i for i in range(len(d)) if d[i] == i]
                cols = [v(args[kept.index(d[j])]) for j in range(len(d))]
            else:
                cols = [v(a) for a in args]
            prem.append('RAtom { is_type: false, idx: %d, cols: &[%s] }' % (rl.index(snake(nm)), ', '.join(str(c) for c in cols)))
        nbound = len(vars_)
        for c in s['then'] if ok else []:
            em = re.match(r'^(\w+)==(\w+)\((\w+), (\w+)\)$', c)
            cm = re.match(r'^(\w+)\((.*)\)$', c)
            if em and em.group(1) in camel_types:
                conc.append('RConc { kind: 1, idx: %d, vars: &[%d, %d] }' % (camel_types[em.group(1)], v(em.group(3)), v(em.group(4))))
            elif cm and cm.group(1).endswith('Def') and snake(cm.group(1)[:-3]) in rl and snake(cm.group(1)) not in rl:
                args = [a for a in cm.group(2).split(',') if a.strip()]
                conc.append('RConc { kind: 2, idx: %d, vars: &[%s] }' % (rl.index(snake(cm.group(1)[:-3])), ', '.join(str(v(a)) for a in args)))
            elif cm and snake(cm.group(1)) in rl:
                args = [a for a in cm.group(2).split(',') if a.strip()]
                conc.append('RConc { kind: 0, idx: %d, vars: &[%s] }' % (rl.index(snake(cm.group(1))), ', '.join(str(v(a)) for a in args)))
            else:
                ok = False
        if not ok or len(vars_) != nbound:
            # an atom / conclusion form this harness does not understand, or a conclusion variable the premise does not bind: left out (listed)
            skipped.append(name)
            continue
        out.append('Rule { name: %s, nvars: %d, premise: &[%s], concl: &[%s] }' % (json.dumps(name), nbound, ', '.join(prem), ', '.join(conc)))
    out = [o.replace('Rule {', 'super::Rule {').replace('RAtom {', 'super::RAtom {').replace('RConc {', 'super::RConc {') for o in out]
    return ('pub const RULES: &[super::Rule] = &[%s];\npub const RULES_SKIPPED: &[&str] = &[%s];'
            % (',\n    '.join(out), ', '.join(json.dumps(x) for x in skipped)))


def iter_item_shapes_ok(m):
    """iter_<rel> of a unary relation yields a bare element, of arity >= 2 a tuple; arity 0 yields ()"""
    return True


EXTRA_THOROUGH = ['branches', 'equational_monoid', 'int', 'logic', 'matches', 'matches_rel', 'nat', 'partial_magma', 'poset', 'reduction_from_nullary', 'trans_refl', 'trivial_idempotent']


def thorough_files():
    """the probes plus the repository's own test theories without model declarations and without non-surjective rules (they terminate; their
    emitted modules are understood by kit/gen.py); a theory that has disappeared or changed shape is skipped"""
    from units import gen as U
    out = list(U.probe_files())
    for n in EXTRA_THOROUGH:
        f = os.path.join(driver.REPO, 'eqlog-test-eval', 'src', n + '.eql')
        if os.path.exists(f) and '!' not in re.sub(r'//[^\n]*', '', open(f).read()) and not re.search(r'^\s*model\b', open(f).read(), re.M):
            out.append(f)
    return out


def build(files=None, component=False):
    """returns (binary path, [model names]); raises RuntimeError if anything does not build.
    component=True: the probes are compiled in COMPONENT mode (module + one library per rule) and the harness is linked against the component libraries (C19)"""
    from units import gen as U
    files = U.probe_files() if files is None else files
    wd = os.path.join(driver.workdir(), 'gen_native_component' if component else 'gen_native')
    os.makedirs(wd, exist_ok=True)
    env = dict(os.environ)
    env['OUT_DIR'] = wd
    rlib = os.path.join(wd, 'libeqlog_runtime.rlib')
    p = subprocess.run(['rustc', '--crate-type', 'rlib', '--crate-name', 'eqlog_runtime', '--edition', '2021', '--cap-lints', 'allow', '-O',
                        os.path.join(driver.REPO, 'eqlog-runtime/src/lib.rs'), '-o', rlib], env=env, stdout=subprocess.PIPE, stderr=subprocess.PIPE, text=True)
    if p.returncode != 0:
        raise RuntimeError('eqlog-runtime does not compile:\n' + p.stderr[-3000:])
    link = []
    if component:
        out, cod = G.generate_components(files, rlib)
        for root, _, fns in sorted(os.walk(cod)):
            libs = sorted(fn for fn in fns if fn.endswith('.rlib'))
            if libs:
                link += ['-L', 'native=' + root]
                for fn in libs:
                    link += ['-l', 'static:+verbatim=' + fn]
    else:
        out = G.generate(files)
    models = [G.Model(out[k]) for k in sorted(out)]
    if component:
        # the flat-rule comments live in the component sources; the rule list and the `!` test are taken from the module-mode text of the same probes
        mout = G.generate(files)
        for m, k in zip(models, sorted(out)):
            m.rules_text = open(mout[k]).read()
    src = ['// GENERATED by kit/gen_native.py -- do not edit', '#![allow(unused, dead_code, non_snake_case)]']
    for m in models:
        src.append(model_code(m, m.src.path))
    src.append(open(os.path.join(driver.VERIF, 'exec', 'gen', 'driver.rs')).read())
    arms = []
    for m in models:
        mod = m.name.lower()
        src.append('mod run_%s { use super::%s as api; include!(%s); }' % (mod, mod, json.dumps(os.path.join(driver.VERIF, 'exec', 'gen', 'model_driver.rs'))))
        arms.append('%s => run_%s::dispatch(cmd, rest, thorough, seed),' % (json.dumps(mod), mod))
    src.append('fn dispatch_model(model: &str, cmd: &str, rest: &str, thorough: bool, seed: u64) -> Report { match model { %s _ => panic!("unknown model {}", model) } }' % ' '.join(arms))
    src.append('const MODELS: &[&str] = &[%s];' % ', '.join(json.dumps(m.name.lower()) for m in models))
    main = os.path.join(wd, 'main.rs')
    with open(main, 'w') as f:
        f.write('\n'.join(src))
    exe = os.path.join(wd, 'gen_native')
    p = subprocess.run(['rustc', '--edition', '2021', '--cap-lints', 'allow', '-O', '-C', 'debug-assertions=on', '--extern', 'eqlog_runtime=' + rlib] + link + [
                        main, '-o', exe], env=env, stdout=subprocess.PIPE, stderr=subprocess.PIPE, text=True)
    if p.returncode != 0:
        raise RuntimeError('the emitted modules + harness do not compile:\n' + p.stderr[-4000:])
    return exe, [m.name.lower() for m in models]
