"""Minimal Rust lexical scanner: enough to locate items, match braces and split statements.

It understands line comments, nested block comments, string / byte-string / raw-string literals,
char literals versus lifetimes.  It does not parse Rust; every consumer works on a *code mask*
(`mask[i]` is True iff byte i of the text is program text, i.e. outside comments and literals).
"""
import re


class ScanError(Exception):
    pass


def code_mask(text):
    n = len(text)
    mask = [True] * n
    i = 0
    while i < n:
        c = text[i]
        if c == '/' and i + 1 < n and text[i + 1] == '/':
            j = text.find('\n', i)
            if j < 0:
                j = n
            for k in range(i, j):
                mask[k] = False
            i = j
        elif c == '/' and i + 1 < n and text[i + 1] == '*':
            depth = 1
            j = i + 2
            while j < n and depth > 0:
                if text.startswith('/*', j):
                    depth += 1
                    j += 2
                elif text.startswith('*/', j):
                    depth -= 1
                    j += 2
                else:
                    j += 1
            for k in range(i, j):
                mask[k] = False
            i = j
        elif c == '"' or (c in 'br' and _is_str_prefix(text, i)):
            j = _skip_string(text, i)
            for k in range(i, j):
                mask[k] = False
            i = j
        elif c == "'":
            j = _skip_char_or_lifetime(text, i)
            if j is not None:
                for k in range(i, j):
                    mask[k] = False
                i = j
            else:
                i += 1
        else:
            i += 1
    return mask


def _is_str_prefix(text, i):
    # b"..", r"..", r#".."#, br".."; must not be the tail of an identifier
    if i > 0 and (text[i - 1].isalnum() or text[i - 1] == '_'):
        return False
    m = re.match(r'(b?r#*"|b")', text[i:i + 12])
    return m is not None


def _skip_string(text, i):
    m = re.match(r'b?r(#*)"', text[i:i + 12])
    if m:
        hashes = m.group(1)
        end = text.find('"' + hashes, i + len(m.group(0)))
        if end < 0:
            raise ScanError('unterminated raw string')
        return end + 1 + len(hashes)
    if text[i] == 'b':
        i += 1
    j = i + 1
    n = len(text)
    while j < n:
        if text[j] == '\\':
            j += 2
        elif text[j] == '"':
            return j + 1
        else:
            j += 1
    raise ScanError('unterminated string')


def _skip_char_or_lifetime(text, i):
    # returns end index of a char literal starting at i, or None if this is a lifetime / label
    n = len(text)
    if i + 1 >= n:
        return None
    if text[i + 1] == '\\':
        j = text.find("'", i + 2)
        # '\'' case
        if text[i + 2] == "'" :
            j = text.find("'", i + 3)
        return None if j < 0 else j + 1
    # 'x' where x is a single (possibly multibyte) char
    if i + 2 < n and text[i + 2] == "'":
        return i + 3
    return None


OPEN = {'{': '}', '(': ')', '[': ']'}
CLOSE = {'}': '{', ')': '(', ']': '['}


def match_close(text, mask, i):
    """index of the bracket closing the one at i"""
    o = text[i]
    c = OPEN[o]
    depth = 0
    n = len(text)
    j = i
    while j < n:
        if mask[j]:
            if text[j] == o:
                depth += 1
            elif text[j] == c:
                depth -= 1
                if depth == 0:
                    return j
        j += 1
    raise ScanError('unbalanced %s at %d' % (o, i))


def find_code(text, mask, needle, start=0, end=None):
    """first occurrence of needle at/after start whose first byte is program text"""
    end = len(text) if end is None else end
    i = start
    while True:
        i = text.find(needle, i, end)
        if i < 0:
            return -1
        if mask[i]:
            return i
        i += 1


def find_code_re(text, mask, pattern, start=0, end=None):
    end = len(text) if end is None else end
    rx = re.compile(pattern) if isinstance(pattern, str) else pattern
    pos = start
    while True:
        m = rx.search(text, pos, end)
        if not m:
            return None
        if mask[m.start()]:
            return m
        pos = m.start() + 1


def next_open_brace(text, mask, start, end=None):
    """first `{` in program text at bracket depth 0 (w.r.t. ( and [) at/after start"""
    end = len(text) if end is None else end
    depth = 0
    i = start
    while i < end:
        if mask[i]:
            ch = text[i]
            if ch in '([':
                depth += 1
            elif ch in ')]':
                depth -= 1
            elif ch == '{' and depth == 0:
                return i
            elif ch == ';' and depth == 0:
                return -1
        i += 1
    return -1


def item_end(text, mask, header_start):
    """end (exclusive) of the item whose header starts at header_start: matching `}` of its first
    top-level `{`, or the terminating `;` if that comes first."""
    depth = 0
    i = header_start
    n = len(text)
    while i < n:
        if mask[i]:
            ch = text[i]
            if ch in '([':
                depth += 1
            elif ch in ')]':
                depth -= 1
            elif ch == '{' and depth == 0:
                return match_close(text, mask, i) + 1
            elif ch == ';' and depth == 0:
                return i + 1
        i += 1
    raise ScanError('item without end at %d' % header_start)


def split_statements(text):
    """split a fragment into top-level statements (ended by `;` or by a closing `}` of a block
    statement at depth 0). Returns list of stripped statement strings."""
    mask = code_mask(text)
    out = []
    depth = 0
    start = 0
    i = 0
    n = len(text)
    while i < n:
        if mask[i]:
            ch = text[i]
            if ch in '({[':
                depth += 1
            elif ch in ')}]':
                depth -= 1
                if depth == 0 and ch == '}':
                    # a block statement ends here unless followed by `;`, `.`, `by`, else ...
                    j = i + 1
                    while j < n and (text[j].isspace() or not mask[j]):
                        j += 1
                    rest = text[j:j + 4]
                    if not (rest.startswith(';') or rest.startswith('.') or rest.startswith('else') or rest.startswith('by') or rest.startswith(',')):
                        out.append(text[start:i + 1].strip())
                        start = i + 1
            elif ch == ';' and depth == 0:
                out.append(text[start:i + 1].strip())
                start = i + 1
        i += 1
    tail = ''.join(ch for k, ch in enumerate(text[start:]) if mask[start + k]).strip()
    if tail:
        out.append(text[start:].strip())
    return [s for s in out if s]


def strip_comments(text):
    mask = code_mask(text)
    # keep literals: recompute which non-code bytes are comments
    out = []
    i = 0
    n = len(text)
    while i < n:
        if not mask[i] and text.startswith('//', i):
            j = text.find('\n', i)
            i = n if j < 0 else j
        elif not mask[i] and text.startswith('/*', i):
            j = i
            while j < n and not mask[j]:
                j += 1
            i = j
        else:
            out.append(text[i])
            i += 1
    return ''.join(out)
