"""Assemble one Verus input file from spec fragments (hand-written ghost code) and annotated items
(real text cut from /repo), keeping a map from byte offsets of the assembled file back to origins."""
import re

TRUSTED_RX = [
    ('assume', re.compile(r'\bassume\s*\(')),
    ('admit', re.compile(r'\badmit\s*\(')),
    ('external_body', re.compile(r'#\[verifier::external_body\]')),
    ('external', re.compile(r'#\[verifier::external\]')),
    ('external_type_specification', re.compile(r'#\[verifier::external_type_specification\]')),
    ('external_trait_specification', re.compile(r'#\[verifier::external_trait_specification\]')),
    ('assume_specification', re.compile(r'\bassume_specification\b')),
    ('uninterp', re.compile(r'\buninterp\b')),
    ('axiom', re.compile(r'\baxiom\s+fn\b')),
    ('global size_of', re.compile(r'\bglobal\s+size_of\b')),
    ('accept_recursive_types', re.compile(r'#\[verifier::accept_recursive_types')),
    ('exec_allows_no_decreases_clause', re.compile(r'exec_allows_no_decreases_clause')),
]


class Assembly:
    def __init__(self, name):
        self.name = name
        self.parts = []      # dict(kind, text, ...)

    def spec(self, path):
        self.parts.append({'kind': 'spec', 'text': open(path).read(), 'path': path})
        return self

    def text(self, t, what='glue'):
        self.parts.append({'kind': 'glue', 'text': t, 'what': what})
        return self

    def item(self, item, indent=''):
        item.check_erasure()
        t, segs = item.render()
        self.parts.append({'kind': 'item', 'text': t, 'item': item, 'segs': segs})
        return self

    def items(self):
        return [p['item'] for p in self.parts if p['kind'] == 'item']

    def render(self):
        out = []
        cur = 0
        self.regions = []
        for p in self.parts:
            t = p['text']
            if not t.endswith('\n'):
                t += '\n'
            self.regions.append((cur, cur + len(t.encode()), p))
            out.append(t)
            cur += len(t.encode())
        return ''.join(out)

    def locate(self, byte):
        """describe the origin of a byte offset of the rendered file"""
        for s, e, p in self.regions:
            if s <= byte < e:
                if p['kind'] == 'spec':
                    return {'in': 'spec', 'file': p['path']}
                if p['kind'] == 'glue':
                    return {'in': 'glue', 'what': p['what']}
                it = p['item']
                # byte -> char offset inside the part
                rel = len(p['text'].encode()[:byte - s].decode(errors='ignore'))
                for a, b, origin in p['segs']:
                    if a <= rel < b:
                        if origin[0] == 'orig':
                            off = origin[1] + (rel - a)
                            return {'in': 'item', 'item': it.name, 'inserted': False,
                                    'file': it.src.path, 'line': it.src.line_of(it.start + off)}
                        return {'in': 'item', 'item': it.name, 'inserted': True, 'kind': origin[1],
                                'file': it.src.path, 'line': it.first_line}
                return {'in': 'item', 'item': it.name, 'inserted': True, 'file': it.src.path, 'line': it.first_line}
        return {'in': '?'}

    def trusted_scan(self, text):
        found = []
        for name, rx in TRUSTED_RX:
            for m in rx.finditer(text):
                line_start = text.rfind('\n', 0, m.start()) + 1
                line_end = text.find('\n', m.end())
                # skip matches inside line comments
                line = text[line_start:line_end]
                if '//' in line and line.index('//') < m.start() - line_start:
                    continue
                # give the declaration some context: up to the next `;` or `{` or newline x2
                ctx = text[m.start():m.start() + 400]
                if name in ('assume_specification',):
                    mm = re.search(r'\[([^\]]*)\]', ctx)
                    desc = 'assume_specification ' + (re.sub(r'\s+', '', mm.group(1)) if mm else '?')
                elif name in ('external_body', 'external', 'external_type_specification', 'external_trait_specification'):
                    mm = re.search(r'(fn|struct|enum|trait|impl)\s+([\w:<>]+)', ctx)
                    desc = '%s %s' % (name, mm.group(0) if mm else '?')
                elif name == 'uninterp':
                    mm = re.search(r'fn\s+(\w+)', ctx)
                    desc = 'uninterp ' + (mm.group(0) if mm else '?')
                else:
                    desc = name + ': ' + re.sub(r'\s+', ' ', line.strip())[:120]
                found.append(desc)
        return sorted(set(found))
