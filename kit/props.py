"""Which parts decide which property."""
import json
import os

from . import driver
from .driver import Native, ProofPart, VERIF


def uf_native(which):
    from units import uf
    return Native('uf_%d' % which, 'uf/main.rs', env={'UF_FILE': uf.FILES[which]},
                  quick_args=['4', '5'], thorough_args=['5', '5'], rustc_args=(['--cfg', 'has_root_const'] if which == 0 else []),
                  rule='every sequence of n grows followed by <= k operations from {grow, root(i), root_const(i), union(root i, root j)} '
                       'on the real Unification<E>, compared after every step with a reference partition; each sequence is distinct by '
                       'construction; non-trivial = contains at least two unions')


def C05():
    from units import uf
    parts = [ProofPart(uf, 'UF(eqlog-runtime)', {'which': 0}, native=uf_native(0)),
             ProofPart(uf, 'UF(eqlog)', {'which': 1}, native=uf_native(1))]
    return {
        'level': 'proof', 'parts': parts,
        'samples': uf.SAMPLES,
        'assumptions': [
            'element type laws t_laws::<T>(): Into<u32>/From<u32> are mutually inverse and == is structural (true for the emitted newtypes)',
            'usize is 64 bit',
            'define_*, the iterator queries and insert_* of the generated API are outside this unit (see DESIGN.md C05)',
        ],
    }


PROPERTIES = {'C05': C05}

NATIVES = {'uf_0': lambda: uf_native(0), 'uf_1': lambda: uf_native(1)}


def replay(pid, path):
    d = json.load(open(path))
    print('failed obligation: %s (function %s)' % (d.get('failed_obligation'), d.get('function')))
    if not d.get('replayable') or not d.get('native'):
        print('no concrete input stored (no-failing-input-found); verifier output follows')
        print(d.get('verus_output') or '')
        return 1
    n = NATIVES[d['native']]()
    res, err = n.replay(d['input'])
    print(json.dumps(res) if res else err)
    return 0 if res and res.get('replay') == 'pass' else 1
