"""Which parts decide which property."""
import json
import os

from . import driver
from .driver import Native, ProofPart, VERIF


def uf_native(which):
    from units import uf
    return Native('uf_%d' % which, 'uf/main.rs', env={'UF_FILE': uf.FILES[which]},
                  quick_args=['4', '5'], thorough_args=['5', '5'], rustc_args=(['--cfg', 'has_root_const'] if which == 0 else []),
                  rule='every sequence of n grows followed by <= k operations from {grow, root(i), root_const(i), union(root i, root j)} '
                       'on the real Unification<E>, compared after every step with a reference partition; each sequence is distinct by '
                       'construction; non-trivial = contains at least two unions')


def C05():
    from units import uf
    parts = [ProofPart(uf, 'UF(eqlog-runtime)', {'which': 0}, native=uf_native(0)),
             ProofPart(uf, 'UF(eqlog)', {'which': 1}, native=uf_native(1))]
    return {
        'level': 'proof', 'parts': parts,
        'samples': uf.SAMPLES,
        'assumptions': [
            'element type laws t_laws::<T>(): Into<u32>/From<u32> are mutually inverse and == is structural (true for the emitted newtypes)',
            'usize is 64 bit',
            'define_*, the iterator queries and insert_* of the generated API are outside this unit (see DESIGN.md C05)',
        ],
    }


def rt_native(unit):
    seed = os.environ.get('VERIF_SEED', '0') or '0'
    rules = {
        'wb': 'operation sequences on families of 3 clones of the real WBTreeMap<u64> compared after every step with BTreeMap, plus the '
              'introspection probe (order, cached sizes, weight balance, len, height bound): (A) all sequences of L ops over K keys, '
              '(B) all insertion orders x removal orders, (C) union/difference of all pairs of key subsets with callbacks that record '
              'their arguments, (D) seeded random long sequences; distinct by construction; non-trivial = at least 3 mutating ops / both operands non-empty',
    }
    return Native('rt_' + unit, 'rt/main.rs', quick_args=[unit, 'quick', seed], thorough_args=[unit, 'thorough', seed], rule=rules.get(unit, ''), timeout=3000)


def C14():
    from units import wb
    parts = [ProofPart(wb, 'WB', native=rt_native('wb'))]
    return {
        'level': 'proof', 'parts': parts, 'samples': wb.SAMPLES, 'always_native': True,
        'assumptions': [
            'assumed specifications of Rc::{as_ref, make_mut, unwrap_or_clone}, mem::replace, Option::map_or (exact std signatures)',
            'derived Clone is structural and V::clone returns an equal value (persistence: an Rc<T> denotes an immutable value in Verus)',
            'usize is 64 bit',
            'Iter / IterMut (unsafe), iter_mut copy-on-write, and every function listed under extraction_drops are covered by the bounded native sweep only',
        ],
    }


PROPERTIES = {'C05': C05, 'C14': C14}

NATIVES = {'uf_0': lambda: uf_native(0), 'uf_1': lambda: uf_native(1), 'rt_wb': lambda: rt_native('wb'), 'rt_pt': lambda: rt_native('pt'), 'rt_ts': lambda: rt_native('ts')}


def replay(pid, path):
    d = json.load(open(path))
    print('failed obligation: %s (function %s)' % (d.get('failed_obligation'), d.get('function')))
    if not d.get('replayable') or not d.get('native'):
        print('no concrete input stored (no-failing-input-found); verifier output follows')
        print(d.get('verus_output') or '')
        return 1
    n = NATIVES[d['native']]()
    res, err = n.replay(d['input'])
    print(json.dumps(res) if res else err)
    return 0 if res and res.get('replay') == 'pass' else 1
