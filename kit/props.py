"""Which parts decide which property."""
import json
import os

from . import driver
from .driver import Native, ProofPart, VERIF


def uf_native(which):
    from units import uf
    return Native('uf_%d' % which, 'uf/main.rs', env={'UF_FILE': uf.FILES[which]},
                  quick_args=['5', '5'], thorough_args=['6', '5'], rustc_args=(['--cfg', 'has_root_const'] if which == 0 else []),
                  rule='every sequence of n grows followed by <= k operations from {grow, root(i), root_const(i), union(root i, root j)} '
                       'on the real Unification<E>, compared after every step with a reference partition; each sequence is distinct by '
                       'construction; non-trivial = contains at least two unions')


class UfDeep:
    """C05, totality on long histories: one chain of a million parent links (what a million equate_ calls build when the new element always
    wins) and a mutable lookup of the bottom element, on the real Unification, in its own process with the default stack.  The Verus contracts
    prove termination and the result for every chain, but a verifier does not model the stack: a recursive lookup verifies and still aborts."""

    def __init__(self, which):
        self.which = which
        self.name = 'uf_deep_%d' % which
        self.nat = uf_native(which)
        self._r = None

    def _go(self):
        import subprocess
        exe = self.nat.build()
        return subprocess.run([exe, 'deep', '1000000'], stdout=subprocess.PIPE, stderr=subprocess.PIPE, text=True, timeout=600)

    def sweep(self, tier):
        if self._r is not None:
            return self._r
        import time
        r = driver.PartResult(self.name, 'bounded')
        t0 = time.time()
        r.rule = ('one chain of 1,000,000 parent links built with union_roots_into on the real Unification<E>, then root(bottom) and root_const on a sample of elements: must return the top '
                  'element and must not abort (own process, default 8 MiB stack); distinct = 1 history; non-trivial')
        r.checker_cmd = 'uf_native deep 1000000'
        try:
            p = self._go()
        except Exception as e:      # noqa
            r.status, r.reason = 'undecided', 'native-build-or-timeout'
            r.notes.append(str(e)[-800:])
            self._r = r
            return r
        r.evaluations = 1
        r.distinct_nontrivial = 1
        r.exhaustive = True
        if p.returncode == 0 and '"deep":"pass"' in p.stdout:
            pass
        else:
            what = ('the process was killed by signal %d (stack exhausted?): %s' % (-p.returncode, p.stderr[-300:].strip())) if p.returncode < 0 or p.returncode >= 128 else (p.stdout.strip()[-400:] or p.stderr[-400:])
            r.status = 'violation'
            r.failures.append({'obligation': 'Unification::root on a chain of 1,000,000 links: ' + what[:200], 'function': 'Unification::root', 'message': what + ' -- deep-chain', 'input': 'deep 1000000',
                               'native': self.name, 'class': 'deep-chain'})
        r.wall_s = time.time() - t0
        self._r = r
        return r

    def replay(self, inp):
        p = self._go()
        ok = p.returncode == 0 and '"deep":"pass"' in p.stdout
        return ({'replay': 'pass' if ok else 'fail', 'exit': p.returncode, 'out': (p.stdout + p.stderr)[-300:]}, None)


def C05():
    from units import uf
    gn = gen_native()
    from units import gen
    parts = [ProofPart(uf, 'UF(eqlog-runtime)', {'which': 0}, native=uf_native(0)),
             ProofPart(uf, 'UF(eqlog)', {'which': 1}, native=uf_native(1)),
             ProofPart(gen, 'GEN', native=gn), UfDeep(0), UfDeep(1)] + repo_theory_parts(('main',))
    return {
        'level': 'proof', 'parts': parts,
        'samples': uf.SAMPLES, 'own_classes': C05_CLASSES,
        'assumptions': [
            'element type laws t_laws::<T>(): Into<u32>/From<u32> are mutually inverse and == is structural (true for the emitted newtypes)',
            'usize is 64 bit',
            'the iterator queries iter_* of the generated API are outside the proved set (adapter chains); bounded-checked by the native sweep',
        ],
    }


def rt_native(unit):
    seed = os.environ.get('VERIF_SEED', '0') or '0'
    rules = {
        'ts': 'every multigraph with <= 3 objects and <= M morphisms, each morphism with dom/cod undefined or any object, x every assignment of the table '
              'entries (objects, dom pairs, cod pairs) to the new or old copy; the real morphism_toposort on real PrefixTrees is compared with a DFS cycle '
              'test and the list is checked to contain exactly the fully defined morphisms once, with correct dom/cod, every morphism into an object before '
              'every morphism out of it; distinct by construction; non-trivial = at least two fully defined morphisms',
        'pt': 'operation sequences on 3 slots of the real PrefixTreeN (N = 0..9) plus 2 restriction operands of arity N-1, compared after every '
              'step with BTreeSet<Vec<u32>>: iteration sorted and duplicate-free, is_empty exact, contains, get(k) = tuples with prefix k, '
              'iter_restrictions keys = first columns present (no empty subtree), union/difference, insert/remove_restriction, mapped = image, '
              'clones and operands unchanged; all sequences of length L over the listed alphabet plus seeded random longer ones; '
              'non-trivial = at least two growing operations',
        'wb': 'operation sequences on families of 3 clones of the real WBTreeMap<u64> compared after every step with BTreeMap, plus the '
              'introspection probe (order, cached sizes, weight balance, len, height bound): (A) all sequences of L ops over K keys, '
              '(B) all insertion orders x removal orders, (C) union/difference of all pairs of key subsets with callbacks that record '
              'their arguments, (D) seeded random long sequences; distinct by construction; non-trivial = at least 3 mutating ops / both operands non-empty',
    }
    return Native('rt_' + unit, 'rt/main.rs', quick_args=[unit, 'quick', seed], thorough_args=[unit, 'thorough', seed], rule=rules.get(unit, ''), timeout=3000)


def C14():
    from units import wb
    from units import wbapi
    parts = [ProofPart(wb, 'WB', native=rt_native('wb')), ProofPart(wbapi, 'WBAPI')]
    return {
        'level': 'proof', 'parts': parts, 'samples': wb.SAMPLES, 'always_native': True,
        'assumptions': [
            'assumed specifications of Rc::{as_ref, make_mut, unwrap_or_clone}, mem::replace, Option::map_or (exact std signatures)',
            'derived Clone is structural and V::clone returns an equal value (persistence: an Rc<T> denotes an immutable value in Verus)',
            'usize is 64 bit',
            'Iter / IterMut (unsafe), iter_mut copy-on-write, and every function listed under extraction_drops are covered by the bounded native sweep only',
        ],
    }


def C08():
    from units import pt
    parts = [ProofPart(pt, 'PT', native=rt_native('pt'))]
    return {
        'level': 'proof', 'parts': parts, 'samples': pt.SAMPLES, 'always_native': True,
        'assumptions': [
            'the contracts of the WBTreeMap core operations (annot/wbmap_api.py) -- proved on the real bodies by unit WB for the functions listed in the evidence of C14, bounded-checked for the others',
            'derived Clone of PrefixTreeN / WBTreeMap is structural (clone independence then follows from value semantics)',
            'PrefixTree0::non_empty returns a tree holding the empty tuple (static item, declared by contract)',
            'callbacks passed as FnMut are pure functions of their arguments (Verus models FnMut calls without state change)',
            'iter, iter_restrictions(_mut) are covered by the bounded native sweep only (mapped is proved; the sweep also exercises it)',
            'the contract of WBTreeMap::iter / Iter::next (iterator protocol) -- proved on the real bodies by unit WB (evidence of C14)',
            'get_mut hands out a subtree that the caller may empty (the source says so); no wf guarantee after writing through it',
        ],
    }


# failure classes of the shared sweep of the emitted modules, by owning property
C04_CLASSES = r'^(copy|typeset|newold|bounds|weights|iter-|query-|functional|enum-cases|fixpoint|panic)'
C05_CLASSES = r'^(count|root|equality|visible|fresh|define-|panic)'
C07_CLASSES = r'^(resume-|until-)'
C01_CLASSES = r'^(rule-|functional|chase-missing)'
C02_CLASSES = r'^chase-'
C03_CLASSES = r'^(history-|fixpoint)'
C15_CLASSES = r'^enum-'
C06_CLASSES = r'^(grow|diverge)'


def gen_native():
    from kit import gen_native as GN
    seed = os.environ.get('VERIF_SEED', '0') or '0'
    return Native('gen', None, builder=lambda: GN.build()[0], builder_thorough=lambda: GN.build(files=GN.thorough_files())[0], quick_args=['sweep', 'all', 'quick', seed], thorough_args=['sweep', 'all', 'thorough', seed], timeout=3000,
                  rule='for every probe theory: the emitted module is compiled with a generated harness (executable form of the generated invariant, reading the private index '
                       'fields from inside the module) and driven through its public API with all sequences of L operations (new_/define_/insert_/equate_/close over 3 elements '
                       'per type) followed by close, plus seeded random longer sequences; checked after every call: invariant, are_equal_ == the equivalence generated by the equate_ '
                       'calls (before the first close), root_ idempotent and in class, inserted tuples visible once while no equate_ happened since the last close, define_ returns the '
                       'existing value or a fresh element; after every close: iterators duplicate-free and canonical, one representative per class, point queries == iterators and '
                       'invariant under equal arguments, functions single-valued, closing again changes nothing; C01: for every flat rule of the program (parsed from the comments of the emitted module) and every '
                       'assignment of canonical elements matching its premise in the iterators, every conclusion holds (tuple present / elements equal / function defined); C02: the closed model is '
                       'isomorphic (fixing the caller\'s elements) to the result of an independent naive chase of the flat rules over the asserted facts; C07: close_until with conditions "k-th evaluation" (k = 1..3) and '
                       '"iter_<rel> yields >= n tuples": the return value equals the condition in the state returned, false only in a closed state, and after every close() / close_until() == false '
                       'the model is isomorphic (fixing the caller\'s elements) to a fresh model on which the same assertions were replayed and closed once; C03: the same comparison against a fresh '
                       'model that received the assertions in reverse order, each twice; C06: close()/close_until() allocate no element when the program has no non-surjective conclusion; '
                       'every sequence is distinct and non-trivial (ends in close); the thorough tier additionally drives the modules emitted for the theories of eqlog-test-eval/src '
                       'that have no model declarations and no non-surjective rules (12 programs)')


def repo_theory_parts(parts=('main', 'move')):
    """thorough tier only: the same generated contracts on the modules the compiler emits for the repository's own test theories
    (eqlog-test-eval/src/*.eql without model declarations), one Verus file per theory and part; a theory whose emitted module has a
    shape the contract generator does not cover is skipped and named in the evidence (optional parts)"""
    import glob
    import re
    from units import gen
    if os.environ.get('VERIF_TIER_ACTIVE') != 'thorough':
        return []
    out = []
    for f in sorted(glob.glob(os.path.join(driver.REPO, 'eqlog-test-eval', 'src', '*.eql'))):
        if re.search(r'^\s*model\b', open(f).read(), re.M):
            continue
        n = os.path.basename(f)[:-4]
        for part in parts:
            out.append(ProofPart(gen, 'GEN%s(%s)' % ('' if part == 'main' else '-' + part, n), {'part': part, 'probes': [f]}, optional=True))
    return out


def C04():
    from units import gen
    gn = gen_native()
    return {
        'level': 'proof', 'parts': [ProofPart(gen, 'GEN', native=gn), ProofPart(gen, 'GEN-move', {'part': 'move'}, native=gn)] + repo_theory_parts(), 'samples': gen.SAMPLES, 'always_native': True,
        'own_classes': C04_CLASSES,
        'assumptions': gen.ASSUMPTIONS + ['the statements of C04 about the state AFTER close() (iterators, canonical elements, agreement of query paths) are covered by the bounded native sweep only'],
    }


def C07():
    from units import genclose
    gn = gen_native()
    return {
        'level': 'exploration', 'parts': [gn, ProofPart(genclose, 'GEN-close')], 'samples': genclose.SAMPLES, 'own_classes': C07_CLASSES,
        'assumptions': [
            'bounded: programs are the probe theories of /verif/probes (p5 has non-surjective rules, i.e. pending function definitions); operation sequences over 3 elements per type as stated in coverage.rule; never counted as proof',
            'conditions: "the k-th evaluation" (k = 1, 2, 3: stops at entry, after one iteration, after two) for the resumption statement, and "iter_<rel> yields at least n tuples" (a condition over a public query) for the return-value statement',
            '"exactly the closed model that a direct close() would have produced" is decided up to renaming of derived elements: a fresh model replays the assertions (no close_until, no intermediate close), is closed once, and an isomorphism is built from the caller\'s handles by propagation through the function graphs',
            '"contains only elements, tuples and equalities of the free model" at an early return is covered only through the resumption statement (anything not in the free model survives into the final comparison)',
        ] + ['GEN-close (proof part): ' + a for a in genclose.ASSUMPTIONS],
    }


def C01():
    gn = gen_native()
    return {
        'level': 'exploration', 'parts': [gn], 'samples': [], 'own_classes': C01_CLASSES,
        'assumptions': [
            'bounded: programs are the probe theories of /verif/probes (17 probe programs; their flat rules incl. the implicit functionality rules); operation sequences over 3 elements per type as stated in coverage.rule; never counted as proof',
            'the rules are taken from the FLAT-RULE COMMENTS the compiler writes above each emitted rule function (premise atoms incl. diagonal and type-range atoms; conclusions: tuple / equality / function defined), one per sub-rule family, ages dropped: the check decides "the closed model satisfies the flat rules", i.e. it covers sorting, index selection, RAM lowering, code generation, the semi-naive loop and the runtime, but NOT the front half (parsing, flattening of nested terms, equality elimination) -- a flattening defect changes the comment and the code alike',
            'premises are matched against the iterators (canonical tuples), conclusions are checked with the point queries / are_equal_ / evaluation functions, after every close() and every close_until() == false',
        ],
    }


class GenTwice:
    """C20: the sweep of the emitted modules is run twice, in two processes; the digest of everything observed through the public API
    (ids returned, iteration order of every iterator, query results, in observation order) must be identical"""
    name = 'gen_twice'

    def __init__(self):
        self.gn = gen_native()
        self._r = {}

    def _digests(self, args):
        out = []
        for _ in range(2):
            res, err = self.gn.run(args)
            if err or not res or 'digest' not in res:
                return None, err or 'no digest in the harness output'
            out.append((res['digest'], res.get('evaluations', 0)))
        return out, None

    def sweep(self, tier):
        if tier in self._r:
            return self._r[tier]
        import time
        r = driver.PartResult(self.name, 'bounded')
        t0 = time.time()
        r.rule = ('the whole sweep of the emitted probe modules (all operation sequences of the gen harness, same seed) is executed twice in two separate processes; a digest of '
                  'every element id returned, every iterator\'s output in iteration order and every query result, in observation order, must be equal; '
                  'distinct/non-trivial as for the gen sweep')
        try:
            self.gn.build()
        except Exception as e:      # noqa
            r.status, r.reason = 'undecided', 'native-build-failed'
            r.notes.append(str(e)[-1500:])
            self._r[tier] = r
            return r
        args = self.gn.thorough_args if tier == 'thorough' else self.gn.quick_args
        ds, err = self._digests(args)
        r.wall_s = time.time() - t0
        r.checker_cmd = 'native_gen %s  (twice, two processes)' % ' '.join(args)
        if err:
            r.status, r.reason = 'undecided', 'native-' + str(err).split(' ')[0]
        else:
            r.evaluations = ds[0][1] + ds[1][1]
            r.distinct_nontrivial = ds[0][1]
            r.exhaustive = False
            r.notes.append('digests: %s %s' % (ds[0][0], ds[1][0]))
            if ds[0][0] != ds[1][0]:
                r.status = 'violation'
                r.failures.append({'obligation': 'two runs of the same API call sequences produced different transcripts (digest %s vs %s)' % (ds[0][0], ds[1][0]), 'function': 'generated model',
                                   'message': 'transcript digests differ between two processes -- nondeterministic', 'input': ' '.join(args), 'native': 'gen_twice', 'class': 'nondeterministic'})
        self._r[tier] = r
        return r

    def replay(self, inp):
        ds, err = self._digests(inp.split(' '))
        if err:
            return None, err
        return ({'replay': 'fail' if ds[0][0] != ds[1][0] else 'pass', 'digests': [d[0] for d in ds]}, None)


class GenBothBuilds:
    """C19: the probes are compiled in module mode and in component mode (module + one library per rule, linked the way the build script does);
    the same sweep is run against both builds and must produce the same transcript digest and the same contract verdicts"""
    name = 'gen_both_builds'

    def __init__(self):
        self._r = {}

    def _build(self, component):
        from kit import gen_native as GN
        return GN.build(component=component)[0]

    def _run(self, exe, args):
        import subprocess
        p = subprocess.run([exe] + list(args), stdout=subprocess.PIPE, stderr=subprocess.PIPE, text=True, timeout=3000)
        last = None
        for line in p.stdout.splitlines():
            if line.startswith('{'):
                try:
                    last = json.loads(line)
                except ValueError:
                    pass
        return last

    def sweep(self, tier):
        if tier in self._r:
            return self._r[tier]
        import time
        r = driver.PartResult(self.name, 'bounded')
        t0 = time.time()
        r.rule = ('the probe theories are compiled twice by the compiler built from the current tree -- as single modules, and as modules plus one component library per rule (linked with '
                  '-l static:+verbatim=<rule>.rlib like the build script does) -- and the whole gen sweep (same seed) is run against both builds: the digest of everything observed through '
                  'the API must be identical and neither build may fail a contract the other one passes; before that, the exported rule symbols of all probe modules must be pairwise '
                  'distinct across theories (two probes, pz and pz_q, have names related at an underscore boundary)')
        seed = os.environ.get('VERIF_SEED', '0') or '0'
        args = ['sweep', 'all', 'thorough' if tier == 'thorough' else 'quick', seed]
        r.checker_cmd = 'native_gen(module build) %s ; native_gen(component build) %s' % (' '.join(args), ' '.join(args))
        # exported rule symbols must identify (theory, rule): the same symbol emitted for two different theories makes one theory run the
        # other's rule in a component build (and is a duplicate definition in a single-crate build)
        try:
            import re as _re
            from kit import gen as G
            from units import gen as U
            out = G.generate(U.probe_files())
            owner = {}
            for k in sorted(out):
                for sym in set(_re.findall(r'pub fn (eql_\w+)\(', open(out[k]).read())):
                    r.evaluations += 1
                    if sym in owner and owner[sym] != k:
                        r.failures.append({'obligation': 'the exported rule symbol %s is emitted for two theories (%s and %s)' % (sym, owner[sym], k), 'function': 'eqlog::process (symbol names)',
                                           'message': 'symbol %s is exported by the modules of %s and of %s: linked into one program, one theory runs the other theory\'s rule -- symbol-clash' % (sym, owner[sym], k),
                                           'input': 'symbols of %s and %s' % (owner[sym], k), 'native': self.name, 'class': 'symbol-clash'})
                    owner.setdefault(sym, k)
        except Exception as e:      # noqa
            r.notes.append('symbol scan skipped: ' + str(e)[-300:])
        if r.failures:
            r.status = 'violation'
            r.wall_s = time.time() - t0
            self._r[tier] = r
            return r
        try:
            em = self._build(False)
        except Exception as e:      # noqa
            r.status, r.reason = 'undecided', 'native-build-failed'
            r.notes.append(str(e)[-2500:])
            r.wall_s = time.time() - t0
            self._r[tier] = r
            return r
        try:
            ec = self._build(True)
        except Exception as e:      # noqa
            # the same programs and the same harness build and link as single modules but not as module + component libraries:
            # the two builds do not "export exactly the symbols the module imports"
            r.status = 'violation'
            r.failures.append({'obligation': 'the probe theories build and link as single modules but NOT as modules plus component libraries: ' + str(e)[-300:].replace('\n', ' '),
                               'function': 'eqlog::process (component build)', 'message': 'component build of the probes fails where the module build succeeds: %s -- component-build-fails' % str(e)[-1500:],
                               'input': 'component build of the probe theories', 'native': self.name, 'class': 'component-build-fails'})
            r.wall_s = time.time() - t0
            self._r[tier] = r
            return r
        try:
            dm, dc = self._run(em, args), self._run(ec, args)
        except Exception as e:      # noqa
            dm = dc = None
            r.notes.append(str(e)[-500:])
        r.wall_s = time.time() - t0
        if not dm or not dc:
            r.status, r.reason = 'undecided', 'native-no-output'
        else:
            r.evaluations = dm.get('evaluations', 0) + dc.get('evaluations', 0)
            r.distinct_nontrivial = dc.get('evaluations', 0)
            r.notes.append('digests: module %s component %s' % (dm.get('digest'), dc.get('digest')))
            fm = set((f.get('function'), f.get('class')) for f in dm.get('fails', []))
            only_c = [f for f in dc.get('fails', []) if (f.get('function'), f.get('class')) not in fm]
            for f in only_c:
                r.failures.append({'obligation': 'the component build fails a contract the module build passes: ' + f.get('what', '')[:160], 'function': f.get('function'), 'message': f.get('what', ''),
                                   'input': f.get('input'), 'native': self.name, 'class': 'component-only'})
            if dm.get('digest') != dc.get('digest') and not only_c:
                r.failures.append({'obligation': 'the same API call sequences produce different transcripts against the module build and the component build (digest %s vs %s)' % (dm.get('digest'), dc.get('digest')),
                                   'function': 'generated model', 'message': 'transcript digests of the two builds differ -- builds-differ', 'input': ' '.join(args), 'native': self.name, 'class': 'builds-differ'})
            if r.failures:
                r.status = 'violation'
        self._r[tier] = r
        return r

    def replay(self, inp):
        r = self.sweep('quick')
        return ({'replay': 'fail' if r.failures else 'pass', 'notes': r.notes}, None)


def C19():
    return {
        'level': 'exploration', 'parts': [GenBothBuilds()], 'samples': [], 'routed_natives': (),
        'assumptions': [
            'bounded: the probe theories; the API histories of the gen sweep; one machine',
            'decided: "any API history run against either build yields identical observable results" (transcript digest: ids, iterator outputs in order, query results) and, through linking, "the module imports exactly symbols the component libraries export" for these programs; the textual clauses (environment declared identically on both sides, same rule code) are not compared as text -- a mismatch shows as a build failure (UNDECIDED) or as a behavioural difference',
            'a 64-bit digest is compared (a collision would hide a difference)',
        ],
    }


def compile_ok():
    from kit.compile_ok import CompileOk
    return CompileOk()


def C09():
    return {
        'level': 'exploration', 'parts': [compile_ok()], 'samples': [], 'routed_natives': (),
        'assumptions': [
            'bounded: programs are sampled -- the probe theories (quick) plus every theory under eqlog-test-eval/src (thorough); "every accepted program" is not decided',
            'a theory the compiler rejects with a diagnostic is not an accepted program and is skipped (listed in the notes); a panic of the compiler is a failure',
            'compiles = rustc accepts the emitted module as a library crate against a fresh eqlog-runtime; in component mode the compiler itself compiles the component libraries (its exit status is checked); linking module and components together is exercised by C19',
        ],
    }


def compile_twice():
    from kit.compile_det import CompileTwice
    return CompileTwice()


def C13():
    return {
        'level': 'exploration', 'parts': [compile_twice()], 'samples': [], 'routed_natives': (),
        'assumptions': [
            'bounded: the probe theories; two runs per build mode on one machine with the same compiler binary; input and output directories differ between the runs; component mode is run with RAYON_NUM_THREADS=1 and 8',
            'compared: every generated text file (module sources, component sources, digest files), byte for byte; compiled libraries are not compared',
            'a scheduling-dependent difference that needs a particular interleaving may not show in two runs',
        ],
    }


def C20():
    return {
        'level': 'exploration', 'parts': [GenTwice()], 'samples': [], 'routed_natives': (),
        'assumptions': [
            'bounded: programs are the probe theories; call sequences are those of the gen sweep; two runs in two processes on one machine (same binary): address-space layout and hashing seeds differ between the runs, time and thread scheduling are not varied on purpose',
            'what is compared: element ids returned by new_/define_, the output of every iter_* in iteration order, counts, after every call -- through a 64-bit digest (a collision would hide a difference)',
            'corollary from the proof units, not part of this check: every runtime operation under contract (C05, C08, C14) equals a mathematical function of its abstract arguments, so it cannot depend on addresses or hashing',
        ],
    }


def enum_static():
    from kit.enum_static import EnumStatic
    return EnumStatic()


def enum_probes():
    import re
    from units import gen
    return [f for f in gen.probe_files() if re.search(r'^\s*enum\s', open(f).read(), re.M)]


def C15():
    gn = gen_native()
    from units import gen
    return {
        'level': 'exploration', 'parts': [gn, enum_static(), ProofPart(gen, 'GEN-enum', {'part': 'enum', 'probes': enum_probes()}, own_only=True)],
        'samples': ['new_<enum>(value: <Enum>Case) -> res (Verus, real emitted text): requires inv, the fields of the case are existing elements; ensures match value { <Enum>Case::Ctor(el..) => inv && (ctor(root el..) defined before ==> res is that value and the model is unchanged) && (undefined before ==> res is a fresh element and t_ctor is extended by exactly that row) && t_ctor.contains(root el.., res) && every other relation unchanged } -- the variants are read off the emitted enum declaration, not off the body under proof'],
        'own_classes': C15_CLASSES,
        'assumptions': [
            'proof part GEN-enum (per enum probe program, all states and arguments): new_<enum>(Case) is proved on the emitted text against the contract "returns the value of the constructor application named by the case (existing, model unchanged; or fresh, exactly one row added), invariant preserved", on top of the proved contracts of define_<constructor> (unit GEN, reported under C05); <enum>_cases / <enum>_case (iterator chains) stay bounded',
            'bounded and partial: programs are the probe theories with enum types (p3: Zero / Succ; p9: Var(Name) / App(Expr, Expr) / Unit); operation sequences as stated in coverage.rule; never counted as proof',
            'decided: after every close() every element of an enum type has at least one constructor case (so <enum>_case cannot panic), <enum>_cases lists exactly the constructor applications that evaluate to the element, each reported application evaluates to an element equal to it; new_<enum>(Case) returns the existing value of the constructor application or a fresh element and the application evaluates to it afterwards',
            'static half, bounded (part enum_static): 8 programs whose rule would create an enum element through a non-constructor function or an unbound variable must be rejected with a diagnostic, 5 neighbours that use constructor applications (or a plain type) must be accepted; in the modules emitted for the enum probes every `pub fn (&mut self ..) -> <Enum>` is new_<enum>(value: <Enum>Case) or define_<constructor>. The expectations come from the property statement; the semantic check itself (eqlog.eql rules evaluated by generated code) is not under contract',
        ],
    }


def C02():
    gn = gen_native()
    return {
        'level': 'exploration', 'parts': [gn], 'samples': [], 'own_classes': C02_CLASSES,
        'assumptions': [
            'bounded: programs are the probe theories (thorough: also 11 theories of eqlog-test-eval/src); operation sequences over 3 elements per type plus two bulk histories, as stated in coverage.rule; never counted as proof',
            'the reference is a naive chase written for this check (exec/gen/model_driver.rs: Chase): plain sets of tuples and a union-find, every flat rule applied to every match until nothing changes, functions single-valued, function definitions applied as soon as a rule asks for them; it shares no code with eqlog',
            'the rules are the FLAT rules the compiler prints above each emitted rule function (as for C01): the chase is a reference for everything behind flattening, not for the source-level semantics of nested terms / premise equalities',
            'after every close() (and every close_until() == false) the model must be isomorphic to the chase result by a map fixing the caller\'s elements: same classes, same tuples, every class reachable from the caller\'s elements through function graphs; a chase that does not reach a fixed point within 400 rounds is skipped (no comparison)',
        ],
    }


def C03():
    gn = gen_native()
    return {
        'level': 'exploration', 'parts': [gn], 'samples': [], 'own_classes': C03_CLASSES,
        'assumptions': [
            'bounded: programs are the probe theories of /verif/probes; operation sequences over 3 elements per type as stated in coverage.rule; never counted as proof',
            'the statement is decided as a postcondition of close(): after every close() the model must be isomorphic, by a map fixing the elements the caller created (new_/define_ results, matched by call), to a FRESH model on which the same assertions were replayed (a) in the same order without any intermediate close and (b) in reverse order with every insert_/equate_ made twice, and closed once; plus: closing a closed model changes nothing',
            'isomorphism is built by propagation from the caller\'s elements through the function graphs; every class must be reached (free model), every relation must correspond',
            'the reference is the implementation itself on a canonical history (not an independent chase); a defect that affects every history alike is invisible here (C01/C02 are not claimed)',
        ],
    }


def surj_static():
    from kit.enum_static import SurjStatic
    return SurjStatic()


def C06():
    gn = gen_native()
    return {
        'level': 'exploration', 'parts': [gn, surj_static()], 'samples': [], 'own_classes': C06_CLASSES,
        'assumptions': [
            'bounded: programs are the probe theories without non-surjective conclusions (p1, p2, p3, p4, p6, p7, p8, p9, p10, p11, pz, pz_q; detected from the flat-rule comments of the emitted module); operation sequences over 3 elements per type; never counted as proof',
            'decided: close()/close_until() allocate no element ids (hence the number of classes cannot grow); termination is only observed -- every explored run returned (a diverging run would make the check time out = UNDECIDED, never an alarm)',
            'compile-time half, bounded (part surj_static): 8 programs without `!` whose conclusion needs an element the premise does not provide must be rejected with a diagnostic, 7 neighbours (term bound in the premise, an equation giving an undefined application an existing value -- also exercised at run time by probe p11 --, the same rule with `!`) must be accepted; expectations come from the statement; the surjectivity analysis itself (eqlog.eql rules evaluated by generated code) is not under contract',
        ],
    }


def sn_native():
    return Native('sn', 'sn/main.rs', cargo_deps='itertools = "=0.15.0"\neqlog-eqlog = { path = "%s" }' % os.path.join(VERIF, 'exec', 'sn', 'shim'),
                  quick_args=['5'], thorough_args=['6'], timeout=3000,
                  rule='every premise (sequence of atoms) of length <= L over a pool of 8 atoms is turned into a FlatRule and passed to the real to_semi_naive '
                       'and sort_premise; contract: n sub-rules with the same atoms/conclusion and ages All/New/Old for j <,=,> i; sort_premise permutes '
                       '(rel, args, age) triples; and for every labelling of the distinct atoms as new/old exactly one sorted sub-rule accepts iff some atom is new; '
                       'distinct by construction; non-trivial = at least two atoms')


def emit_sn():
    from kit.emit_sn import EmitSN
    return EmitSN()


def C16():
    from units import snl
    return {
        'level': 'exploration', 'parts': [sn_native(), emit_sn(), ProofPart(snl, 'SNL')], 'samples': snl.SAMPLES, 'routed_natives': (),
        'assumptions': [
            'bounded: premise length <= L over a fixed atom pool; never counted as proof',
            'part emit_sn: the same contract evaluated on the END of the pipeline (flatten .. emit) for the rules of the probe theories: flat-rule comments, the index fields each emitted rule function reads per premise position, and the exported dispatchers are parsed from the emitted modules',
            'the step from ages to index fields (IndexSpec::from_query_spec_chain, flat_rule_to_ram) is covered only through part emit_sn, i.e. for the rules of the probe theories (which new/old field each premise position reads); which COLUMN ORDER / diagonal copy is read is not checked here',
            'the implicit functionality rule (semi_naive_functionality) is built from a real Eqlog and is not executed; its (New, All) shape is covered by lemma_functionality only',
            'eqlog_eqlog is replaced by a shim of id newtypes; itertools 0.15.0 is the real crate',
        ],
    }


def sd_prepare(wd):
    """cut `Location` (+ its impl) out of grammar_util.rs and `whipe_comments` out of build.rs, verbatim"""
    from kit.extract import Source
    d = os.path.join(wd, 'sd_extract')
    os.makedirs(d, exist_ok=True)
    g = Source(os.path.join(driver.REPO, 'eqlog/src/grammar_util.rs'))
    st = g.item(r'#\[derive\([^\]]*\)\]\s*pub struct Location\b', name='Location')
    im = g.item(r'impl Location\s*\{', name='impl Location')
    with open(os.path.join(d, 'location.rs'), 'w') as f:
        f.write(st.orig + '\n' + im.orig + '\n')
    b = Source(os.path.join(driver.REPO, 'eqlog/src/build.rs'))
    w = b.fn('whipe_comments')
    with open(os.path.join(d, 'whipe_comments.rs'), 'w') as f:
        f.write(w.orig + '\n')
    return {'SD_EXTRACT': d}


def sd_native():
    return Native('sd', 'sd/main.rs', cargo_deps='itertools = "=0.15.0"', prepare=sd_prepare, quick_args=['5'], thorough_args=['6'], timeout=3000,
                  rule='every text of <= L symbols over {a, space, /, LF, CRLF, e-acute} x every location the parse-error conversion (error.rs:148-200) can produce for it '
                       '(token spans on non-blank characters of the comment-blanked text, one-byte invalid-token locations, (eof, eof+1)): the real whipe_comments, '
                       'Location::intersect and SourceDisplay::fmt must not panic, print the number of the input line containing the position, and only complete input lines; '
                       'distinct by construction; non-trivial = the text has more than one line')


def C11():
    from units import loc
    return {
        'level': 'exploration', 'parts': [sd_native(), ProofPart(loc, 'LOC')], 'samples': loc.SAMPLES,
        'assumptions': [
            'bounded and partial: only the diagnostic renderer (source_display.rs, Location::intersect, whipe_comments) is executed; the LALRPOP parser, Eqlog::close and semantics/*.rs are not covered',
            'part LOC (proof): Location::is_empty / Location::intersect (real text) against interval intersection, with assumed specifications of std::cmp::max / min; it is the only function under the renderer that Verus can take',
            'the set of locations is an over-approximation of token spans derived from the text, not produced by the real lexer',
        ],
    }


def C18():
    return {
        'level': 'exploration', 'parts': [rt_native('ts')],
        'samples': [],
        'assumptions': [
            'bounded only: <= 3 objects, <= 3 (quick) / 4 (thorough) morphisms; never counted as proof',
            'preconditions taken from the caller (display_recompute_model_indices_fn): dom and cod are partial functions into the object set, new and old parts are disjoint',
            '"does not depend on the split" is read as: Ok/Err and the set of returned (morphism, dom, cod) triples are the same for every split; the order is checked to be topological for every split separately (the code iterates the new part of dom before the old part, so the sequence itself may legitimately differ)',
        ],
    }


PROPERTIES = {'C02': C02, 'C15': C15, 'C09': C09, 'C19': C19, 'C13': C13, 'C20': C20, 'C01': C01, 'C03': C03, 'C04': C04, 'C05': C05, 'C06': C06, 'C07': C07, 'C14': C14, 'C08': C08, 'C16': C16, 'C18': C18, 'C11': C11}

NATIVES = {'uf_0': lambda: uf_native(0), 'uf_1': lambda: uf_native(1), 'rt_wb': lambda: rt_native('wb'), 'rt_pt': lambda: rt_native('pt'), 'rt_ts': lambda: rt_native('ts'), 'sn': sn_native, 'sd': sd_native, 'gen': gen_native, 'emit_sn': emit_sn, 'gen_twice': GenTwice, 'compile_twice': compile_twice, 'gen_both_builds': GenBothBuilds, 'compile_ok': compile_ok, 'uf_deep_0': lambda: UfDeep(0), 'uf_deep_1': lambda: UfDeep(1), 'enum_static': enum_static, 'surj_static': surj_static}


def replay(pid, path):
    d = json.load(open(path))
    print('failed obligation: %s (function %s)' % (d.get('failed_obligation'), d.get('function')))
    if not d.get('replayable') or not d.get('native'):
        print('no concrete input stored (no-failing-input-found); verifier output follows')
        print(d.get('verus_output') or '')
        return 1
    n = NATIVES[d['native']]()
    res, err = n.replay(d['input'])
    print(json.dumps(res) if res else err)
    return 0 if res and res.get('replay') == 'pass' else 1
