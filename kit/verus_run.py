"""Run Verus on one assembled file and classify the outcome."""
import json
import os
import subprocess
import time

VERUS = os.environ.get('VERUS', 'verus')


def run(path, rlimit=None, extra=(), timeout=3000, crate_name=None):
    cmd = [VERUS, path, '--output-json', '--time', '--triggers-mode', 'silent', '--error-format=json',
           '--multiple-errors', '30']
    if crate_name:
        cmd += ['--crate-name', crate_name]
    if rlimit:
        cmd += ['--rlimit', str(rlimit)]
    cmd += list(extra)
    t0 = time.time()
    try:
        p = subprocess.run(cmd, cwd=os.path.dirname(path), stdout=subprocess.PIPE, stderr=subprocess.PIPE,
                           timeout=timeout, text=True)
        out, err, code = p.stdout, p.stderr, p.returncode
    except subprocess.TimeoutExpired as e:
        return {'status': 'timeout', 'cmd': ' '.join(cmd), 'wall_s': time.time() - t0, 'diagnostics': [],
                'functions': [], 'verified': 0, 'errors': 0, 'smt_ms': 0, 'raw_err': str(e)}
    wall = time.time() - t0
    res = {'cmd': ' '.join(cmd), 'wall_s': wall, 'exit': code, 'raw_err': err[-20000:]}
    diags = []
    for line in err.splitlines():
        line = line.strip()
        if not line.startswith('{'):
            continue
        try:
            d = json.loads(line)
        except ValueError:
            continue
        if d.get('$message_type') != 'diagnostic':
            continue
        sp = [s for s in d.get('spans', []) if s.get('is_primary')] or d.get('spans', [])
        diags.append({
            'level': d.get('level'), 'message': d.get('message'),
            'byte_start': sp[0]['byte_start'] if sp else None,
            'line': sp[0]['line_start'] if sp else None,
            'text': (sp[0]['text'][0]['text'].strip() if sp and sp[0].get('text') else ''),
            'labels': [s.get('label') for s in d.get('spans', []) if s.get('label')],
            'all_spans': [(s['byte_start'], s.get('label'), s['byte_end']) for s in d.get('spans', [])],
            'rendered': d.get('rendered', ''),
        })
    res['diagnostics'] = diags
    try:
        j = json.loads(out)
    except ValueError:
        j = None
    if j is None:
        res['status'] = 'tool-error'
        res['functions'] = []
        res['verified'] = 0
        res['errors'] = 0
        res['smt_ms'] = 0
        return res
    vr = j.get('verification-results', {})
    res['verified'] = vr.get('verified', 0)
    res['errors'] = vr.get('errors', 0)
    funcs = []
    tm = j.get('times-ms', {})
    smt = tm.get('smt', {})
    for m in smt.get('smt-run-module-times', []):
        for f in m.get('function-breakdown', []):
            funcs.append({'name': f['function'], 'mode': f.get('mode:', f.get('mode')), 'success': f['success'],
                          'ms': f.get('time', 0), 'rlimit': f.get('rlimit', 0)})
    res['functions'] = funcs
    res['smt_ms'] = smt.get('total', 0)
    res['total_ms'] = tm.get('total', 0)
    res['verus_version'] = j.get('verus', {}).get('version')
    errs = [d for d in diags if d['level'] == 'error' and not d['message'].startswith('aborting due to')]
    if vr.get('encountered-vir-error') or (not vr.get('success') and vr.get('errors', 0) == 0):
        res['status'] = 'tool-error'      # type error, unsupported construct, ...
    elif vr.get('success') and not errs:
        res['status'] = 'verified'
    else:
        # distinguish resource-outs from failed obligations
        kinds = set()
        for d in errs:
            msg = d['message']
            if 'rlimit' in msg or 'Resource limit' in msg or 'resource limit' in msg or 'timed out' in msg.lower():
                kinds.add('rlimit')
            else:
                kinds.add('failed')
        res['status'] = 'failed' if 'failed' in kinds else 'rlimit'
    res['error_diags'] = errs
    return res
