"""setup_cmd: nothing to build (python + verus + rustc are pre-installed); verify the tools answer."""
import shutil
import subprocess
import sys


def main():
    ok = True
    for tool in ('verus', 'rustc', 'cargo'):
        p = shutil.which(tool)
        print('%-6s %s' % (tool, p))
        ok = ok and bool(p)
    try:
        v = subprocess.run(['verus', '--version'], stdout=subprocess.PIPE, stderr=subprocess.STDOUT, text=True, timeout=60).stdout
        print(v.strip().splitlines()[0] if v.strip() else '')
    except Exception as e:       # noqa
        print('verus --version failed:', e)
        ok = False
    return 0 if ok else 1


if __name__ == '__main__':
    sys.exit(main())
