"""Property-level orchestration: run the parts of a property, decide, write evidence, print verdict lines."""
import json
import os
import re
import sys
import time

from . import driver
from .driver import VERIF, REPO, log


def load_known():
    p = os.path.join(VERIF, 'known-findings.json')
    if not os.path.exists(p):
        return []
    return json.load(open(p)).get('findings', [])


def known_match(pid, failure, known):
    """a failure is a known finding iff an entry of the same property names the same function and its
    `match` regex matches the failure's message / input class.  `fixed` entries suppress nothing."""
    for k in known:
        if k.get('property') != pid or k.get('status') != 'open':
            continue
        if k.get('function') and k['function'] != failure.get('function'):
            continue
        hay = ' | '.join(str(failure.get(x, '')) for x in ('obligation', 'message', 'class', 'input'))
        if re.search(k['match'], hay):
            return k
    return None


def decide(pid, tier, parts, level, meta):
    """parts: list of objects with .run(tier) (ProofPart) or .sweep(tier) (Native)."""
    t0 = time.time()
    seed = int(os.environ.get('VERIF_SEED', '0') or 0)
    results = []
    for p in parts:
        log('[%s] running %s ...' % (pid, getattr(p, 'label', getattr(p, 'name', '?'))))
        if isinstance(p, driver.ProofPart):
            r = p.run(tier)
            log('[%s]   %s: %s %s (%d/%d obligations, %.1fs)' % (pid, r.name, r.status, r.reason, r.discharged, r.obligations, r.wall_s))
            results.append(r)
            # replay search / bounded tier
            need_native = p.native is not None and (r.status != 'ok' or tier == 'thorough' or meta.get('always_native'))
            if need_native:
                nr = p.native.sweep(tier)
                log('[%s]   %s (bounded): %s %s (%d evaluations, %.1fs)' % (pid, nr.name, nr.status, nr.reason, nr.evaluations, nr.wall_s))
                nr.for_parts = getattr(nr, 'for_parts', []) + [r.name]
                nr.for_part = r.name
                if nr not in results:
                    results.append(nr)
        else:
            nr = p.sweep(tier)
            log('[%s]   %s (bounded): %s %s (%d evaluations, %.1fs)' % (pid, nr.name, nr.status, nr.reason, nr.evaluations, nr.wall_s))
            results.append(nr)

    # a native harness can serve several properties (the sweep of the emitted modules checks statements of C04, C05 and C07): a property
    # only owns the failure classes it names; the others are another property's business and are listed in the evidence, not reported here
    own = meta.get('own_classes')
    foreign = []
    if own:
        rx = re.compile(own)
        for r in results:
            if r.kind == 'bounded' and r.name in meta.get('routed_natives', ('gen',)):
                keep = [f for f in r.failures if rx.search(f.get('class', '') or '')]
                foreign.extend(f for f in r.failures if f not in keep)
                r.failures = keep
                if not keep and r.status == 'violation':
                    r.status = 'ok'
    meta['_foreign'] = ['%s: %s' % (f.get('class'), (f.get('message') or '')[:200]) for f in foreign]

    known = load_known()
    violations = []     # (failure dict, replayable bool)
    known_hits = []
    undecided = []
    for r in results:
        if r.kind == 'bounded':
            for f in r.failures:
                k = known_match(pid, f, known)
                (known_hits if k else violations).append((f, True, k))
            if r.status == 'undecided' and not getattr(r, 'for_part', None):
                undecided.append('%s: %s' % (r.name, r.reason))
    for r in results:
        if r.kind != 'proof':
            continue
        natives = [n for n in results if r.name in getattr(n, 'for_parts', [])]
        concrete = any(n.failures for n in natives)
        if r.status == 'violation':
            if concrete:
                # the named obligations come from the verifier, the concrete failing input from the replay search
                nf = [f for n in natives for f in n.failures][0]
                violations[:] = [v for v in violations if v[0].get('native') not in [n.name for n in natives]]
                known_hits[:] = [v for v in known_hits if v[0].get('native') not in [n.name for n in natives]]
                for f in r.failures:
                    f.update({'input': nf.get('input'), 'native': nf.get('native'), 'step': nf.get('step'), 'observed': nf.get('message'), 'class': nf.get('class', '')})
                    k = known_match(pid, f, known)
                    (known_hits if k else violations).append((f, True, k))
            else:
                lost = getattr(r, '_lost', [])
                if lost:
                    undecided.append('%s: obligation failed, but a proof hint lost its anchor and the bounded search found no failing input (%s)' % (r.name, lost[0][1]))
                else:
                    for f in r.failures:
                        k = known_match(pid, f, known)
                        (known_hits if k else violations).append((f, False, k))
        elif r.status == 'undecided':
            if not concrete:
                undecided.append('%s: %s' % (r.name, r.reason))

    wall = time.time() - t0
    ev = evidence(pid, tier, seed, level, results, violations, known_hits, undecided, wall, meta)
    os.makedirs(os.path.join(VERIF, 'evidence'), exist_ok=True)
    with open(os.path.join(VERIF, 'evidence', pid + '.json'), 'w') as f:
        json.dump(ev, f, indent=1)

    for (f, _, k) in known_hits:
        print('KNOWN-FINDING: property=%s %s' % (pid, k['what']))
    code = 0
    if violations:
        os.makedirs(os.path.join(VERIF, 'replay'), exist_ok=True)
        seen = set()
        for (f, replayable, _) in violations:
            key = (f.get('function'), f.get('obligation'))
            if key in seen:
                continue
            seen.add(key)
            import hashlib
            h = hashlib.sha1(('%s|%s' % (f.get('function'), f.get('obligation'))).encode()).hexdigest()[:8]
            slug = re.sub(r'[^A-Za-z0-9]+', '_', '%s_%s' % (f.get('function', ''), f.get('class') or f.get('obligation', '')))[:60].strip('_') + '_' + h
            path = os.path.join(VERIF, 'replay', '%s-%s.json' % (pid, slug))
            with open(path, 'w') as fh:
                json.dump({'property': pid, 'failed_obligation': f.get('obligation'), 'function': f.get('function'),
                           'source': {'file': f.get('file'), 'line': f.get('line')},
                           'native': f.get('native'), 'input': f.get('input'), 'step': f.get('step'), 'observed': f.get('observed') or f.get('message'),
                           'verus_output': f.get('verus'), 'verus_obligations': f.get('verus_obligations'),
                           'replayable': bool(replayable)}, fh, indent=1)
            tail = '' if replayable else ' no-failing-input-found'
            print('VIOLATION property=%s replay=%s obligation="%s" function=%s%s' % (
                pid, path, ' '.join((f.get('obligation') or '').split())[:160].replace('"', "'"), f.get('function'), tail))
        code = 1
    elif undecided:
        for u in undecided:
            print('UNDECIDED property=%s %s' % (pid, u))
        code = 2
    else:
        print('OK property=%s tier=%s parts=%d wall=%.1fs' % (pid, tier, len(results), wall))
    return code


def evidence(pid, tier, seed, level, results, violations, known_hits, undecided, wall, meta):
    proof = [r for r in results if r.kind == 'proof']
    bounded = [r for r in results if r.kind == 'bounded']
    cov = {}
    obligations = sum(r.obligations for r in proof)
    discharged = sum(r.discharged for r in proof)
    trusted = sorted(set(t for r in proof for t in r.trusted))
    # a function whose text is verified in several parts (e.g. GEN and GEN-move assemble the same emitted functions) is listed and counted once
    fuc, seen = [], set()
    for r in proof:
        for f in r.exec_functions:
            if f['name'] in seen:
                continue
            seen.add(f['name'])
            fuc.append(dict(f, part=r.name))
    if proof:
        cov.update({
            'obligations': obligations, 'discharged': discharged,
            'obligations_note': 'obligations/discharged are summed over the parts (Verus files); parts that assemble the same functions re-verify them, functions_under_contract lists each function once (%d distinct exec functions)' % len(fuc),
            'obligation_unit': 'one obligation = one Verus function (exec function with its contract, proof lemma, or recursive spec function termination) checked by Z3; each bundles all of that function\'s pre/postcondition, invariant, termination, overflow and panic-freedom conditions',
            'checker_cmd': ' ; '.join(r.checker_cmd for r in proof),
            'back_end': 'Verus 0.2026.09.13 / Z3 (bundled)',
            'trusted_base': trusted,
            'solver_ms': sum(r.smt_ms for r in proof),
            'functions_under_contract': fuc,
            'proved_exec_functions': sum(1 for f in fuc if f.get('verified')),
            'lemmas': sum(r.lemmas for r in proof),
            'vacuity_canary': {r.name: r.canary for r in proof},
            'stability_reruns': {r.name: r.stability for r in proof if r.stability},
            'extraction_drops': {r.name: r.dropped for r in proof},
            'lost_hint_anchors': [n for r in proof for n in r.notes if n.startswith('lost hint')],
            'not_under_contract': [n for r in proof for n in r.notes if n.startswith('not under contract')],
        })
    if bounded:
        cov.update({
            'evaluations': sum(r.evaluations for r in bounded),
            'distinct_nontrivial': sum(r.distinct_nontrivial for r in bounded),
            'rule': ' || '.join('%s: %s' % (r.name, r.rule) for r in bounded),
            'exhaustive': all(r.exhaustive for r in bounded),
            'bounded_parts': [{'name': r.name, 'evaluations': r.evaluations, 'distinct_nontrivial': r.distinct_nontrivial,
                               'cmd': r.checker_cmd, 'notes': r.notes, 'wall_s': round(r.wall_s, 2)} for r in bounded],
            'bounded_note': 'bounded parts execute the contracts natively on the real code over a finite domain; they are never included in obligations/discharged',
        })
    samples = list(meta.get('samples', []))
    for r in bounded:
        samples.extend(r.samples[:3])
    cov['samples'] = samples or ['(none)']
    if level == 'proof' and not bounded:
        # the schema's generic fallback is not needed; keep counts honest
        pass
    cov['parts'] = [{'name': r.name, 'kind': r.kind, 'status': r.status, 'reason': r.reason, 'wall_s': round(r.wall_s, 2)} for r in results]
    cov['undecided'] = undecided
    cov['known_findings_reported'] = [k['id'] for (_, _, k) in known_hits]
    if meta.get('_foreign'):
        cov['failures_owned_by_other_properties'] = meta['_foreign']
    return {
        'property_id': pid, 'tier': tier, 'seed': seed, 'level': level, 'coverage': cov,
        'assumptions': meta.get('assumptions', []) + ['trusted: ' + t for t in trusted],
        'wall_s': round(wall, 2), 'violations': len(violations),
    }
