"""Generic check driver: proof parts (Verus on extracted text) and bounded parts (native execution of
executable contracts on the real code).  See DESIGN.md §3."""
import atexit
import hashlib
import json
import os
import shutil
import subprocess
import sys
import tempfile
import time

from . import verus_run
from .extract import LostAnchor, NotGhost

VERIF = os.path.dirname(os.path.dirname(os.path.abspath(__file__)))
REPO = os.environ.get('EQLOG_REPO', '/repo')

_workdir = None


def workdir():
    global _workdir
    if _workdir is None:
        base = os.environ.get('TMPDIR', '/tmp')
        _workdir = tempfile.mkdtemp(prefix='eqlog-verif-%d-' % os.getpid(), dir=base)
        atexit.register(lambda: shutil.rmtree(_workdir, ignore_errors=True))
    return _workdir


def log(*a):
    print(*a, file=sys.stderr, flush=True)


def _slug(label):
    import re
    return re.sub(r'[^a-z0-9]+', '_', label.lower()).strip('_')


class PartResult:
    def __init__(self, name, kind):
        self.name = name
        self.kind = kind                  # 'proof' | 'bounded'
        self.status = 'ok'                # ok | violation | undecided
        self.reason = ''
        self.obligations = 0              # verus functions checked (exec + proof + spec termination)
        self.discharged = 0
        self.exec_functions = []          # [{name, file, line, sha256, ms}]
        self.lemmas = 0
        self.trusted = []
        self.assumptions = []
        self.dropped = []
        self.samples = []
        self.evaluations = 0
        self.distinct_nontrivial = 0
        self.rule = ''
        self.exhaustive = False
        self.smt_ms = 0
        self.wall_s = 0.0
        self.checker_cmd = ''
        self.failures = []                # [{obligation, function, message, file, line, verus, input, what}]
        self.notes = []
        self.canary = None
        self.stability = None


# ------------------------------------------------------------------------------------------------
# native (bounded) harnesses

class Native:
    """A Rust program under /verif/exec/<dir>/main.rs compiled against the real sources."""

    def __init__(self, name, src, env=None, quick_args=(), thorough_args=(), rule='', timeout=900, prepare=None, rustc_args=(), cargo_deps=None, builder=None, builder_thorough=None):
        self.name = name
        self.src = src
        self.env = env or {}
        self.quick_args = list(quick_args)
        self.thorough_args = list(thorough_args)
        self.rule = rule
        self.timeout = timeout
        self.prepare = prepare
        self.rustc_args = list(rustc_args)
        self.cargo_deps = cargo_deps      # text of a [dependencies] section => build with cargo (offline) instead of rustc
        self.builder = builder            # callable returning the path of a ready binary (custom build)
        self.builder_thorough = builder_thorough   # optional: a larger build for the thorough tier (more programs)
        self._bin = None
        self._bin_thorough = None

    def build(self, tier=None):
        if tier == 'thorough' and self.builder_thorough is not None:
            if not self._bin_thorough:
                self._bin_thorough = self.builder_thorough()
            return self._bin_thorough
        if self._bin:
            return self._bin
        if self.builder is not None:
            self._bin = self.builder()
            return self._bin
        env = dict(os.environ)
        env['EQLOG_REPO'] = REPO
        env.update(self.env)
        if self.prepare:
            env.update(self.prepare(workdir()) or {})
        out = os.path.join(workdir(), 'native_' + self.name)
        if self.cargo_deps is not None:
            d = os.path.join(workdir(), 'cargo_' + self.name)
            os.makedirs(d, exist_ok=True)
            with open(os.path.join(d, 'Cargo.toml'), 'w') as f:
                f.write('[package]\nname = "native_%s"\nversion = "0.0.0"\nedition = "2021"\n[dependencies]\n%s\n[[bin]]\nname = "native_%s"\npath = "%s"\n[workspace]\n[profile.release]\ndebug-assertions = true\noverflow-checks = true\n'
                        % (self.name, self.cargo_deps, self.name, os.path.join(VERIF, 'exec', self.src)))
            env['CARGO_NET_OFFLINE'] = 'true'
            env['CARGO_TARGET_DIR'] = os.path.join(d, 'target')
            p = subprocess.run(['cargo', 'build', '--offline', '--release', '--quiet'], cwd=d, env=env, stdout=subprocess.PIPE, stderr=subprocess.PIPE, text=True)
            if p.returncode != 0:
                raise RuntimeError('native harness %s does not build against the current tree:\n%s' % (self.name, p.stderr[-4000:]))
            out = os.path.join(d, 'target', 'release', 'native_' + self.name)
            self._bin = out
            return out
        cmd = ['rustc', '-O', '-C', 'debug-assertions=on', '-C', 'overflow-checks=on', '--edition', '2021', '--cap-lints', 'allow'] + self.rustc_args + ['-o', out,
               os.path.join(VERIF, 'exec', self.src)]
        p = subprocess.run(cmd, env=env, stdout=subprocess.PIPE, stderr=subprocess.PIPE, text=True)
        if p.returncode != 0:
            raise RuntimeError('native harness %s does not compile against the current tree:\n%s' % (self.name, p.stderr[-4000:]))
        self._bin = out
        return out

    def run(self, args, timeout=None, tier=None):
        b = self.build(tier)
        try:
            p = subprocess.run([b] + list(args), stdout=subprocess.PIPE, stderr=subprocess.PIPE, text=True,
                               timeout=timeout or self.timeout)
        except subprocess.TimeoutExpired:
            return None, 'timeout'
        last = None
        for line in p.stdout.splitlines():
            line = line.strip()
            if line.startswith('{'):
                try:
                    last = json.loads(line)
                except ValueError:
                    pass
        if last is None:
            return None, 'no-output (exit %d): %s' % (p.returncode, (p.stderr or p.stdout)[-2000:])
        return last, None

    def sweep(self, tier):
        """returns PartResult (cached per tier: several proof parts may share one searcher)"""
        if not hasattr(self, '_sweeps'):
            self._sweeps = {}
        if tier not in self._sweeps:
            self._sweeps[tier] = self._sweep(tier)
        return self._sweeps[tier]

    def _sweep(self, tier):
        r = PartResult(self.name, 'bounded')
        t0 = time.time()
        try:
            self.build(tier)
        except Exception as e:      # noqa: does not build against the current tree => undecided, never an alarm
            r.status = 'undecided'
            r.reason = 'native-build-failed'
            r.notes.append(str(e))
            r.wall_s = time.time() - t0
            return r
        args = self.thorough_args if tier == 'thorough' else self.quick_args
        res, err = self.run(args, tier=tier)
        r.wall_s = time.time() - t0
        r.rule = self.rule
        r.checker_cmd = 'rustc -O exec/%s (includes the real source files) && native_%s %s' % (self.src or 'gen (generated harness around the emitted modules)', self.name, ' '.join(args))
        if err:
            r.status = 'undecided'
            r.reason = 'native-' + err.split(' ')[0]
            r.notes.append(err)
            return r
        r.evaluations = res.get('evaluations', 0)
        r.distinct_nontrivial = res.get('distinct_nontrivial', 0)
        r.samples = res.get('samples', []) or []
        r.exhaustive = bool(res.get('exhaustive', True))
        if res.get('bound'):
            r.notes.append('bound: ' + str(res['bound']))
        fails = res.get('fails') or ([res['fail']] if res.get('fail') else [])
        for f in fails:
            import re as _re
            m = _re.match(r'^([A-Za-z_][\w:]*)\(', f.get('what', ''))
            fn = f.get('function') or (m.group(1) if m else self.name)
            r.failures.append({'obligation': f.get('contract', 'executable contract of %s violated: %s' % (fn, f.get('what', '')[:120])), 'function': fn,
                               'message': f.get('what', ''), 'input': f.get('input'), 'step': f.get('step'), 'native': self.name,
                               'class': f.get('class', '')})
        if r.failures:
            r.status = 'violation'
        return r

    def replay(self, inp):
        res, err = self.run(['--replay', inp], timeout=120)
        if err and self.builder_thorough is not None:
            # the input may name a program that only the thorough build contains
            res, err = self.run(['--replay', inp], timeout=120, tier='thorough')
        return res, err


# ------------------------------------------------------------------------------------------------
# proof parts

class ProofPart:
    def __init__(self, unit, label=None, build_kwargs=None, native=None, own_only=False, optional=False):
        self.optional = optional      # an extra program of the thorough tier: a shape the contract generator does not cover is skipped (noted), only a failed obligation counts
        self.own_only = own_only      # report only failures inside the functions this part lists (the others belong to the part that owns them)
        self.unit = unit
        self.label = label or unit.NAME
        self.kw = build_kwargs or {}
        self.native = native

    def _want(self):
        u = self.unit
        if getattr(getattr(self, '_asm', None), 'exec_names', None) is not None:
            return list(self._asm.exec_names)
        if hasattr(u, 'exec_funcs'):
            return list(u.exec_funcs(**self.kw))
        return list(getattr(u, 'EXEC_FUNCS', []))

    def _assemble(self, canary):
        return self.unit.build(REPO, canary=canary, **self.kw)

    def run(self, tier):
        r = self._run(tier)
        if self.optional and r.status == 'undecided':
            r.notes.append('not under contract (extra program skipped): %s: %s' % (self.label, r.reason[:300]))
            r.status, r.reason = 'ok', 'skipped: ' + r.reason[:200]
        return r

    def _run(self, tier):
        u = self.unit
        r = PartResult(self.label, 'proof')
        t0 = time.time()
        r.dropped = list(getattr(u, 'DROPPED', []))
        try:
            asm = self._assemble(False)
        except LostAnchor as e:
            r.status = 'undecided'
            r.reason = 'lost-anchor: ' + str(e)
            r.wall_s = time.time() - t0
            return r
        except NotGhost as e:
            r.status = 'undecided'
            r.reason = 'annotation-rejected: ' + str(e)
            r.wall_s = time.time() - t0
            return r
        except Exception as e:      # noqa: a shape the contract generator does not cover, a compiler that does not build, ...: cannot decide, never an alarm
            r.status = 'undecided'
            r.reason = 'assembly-failed (%s): %s' % (type(e).__name__, str(e)[:600])
            r.wall_s = time.time() - t0
            return r
        text = asm.render()
        path = os.path.join(workdir(), _slug(self.label) + '.rs')
        with open(path, 'w') as f:
            f.write(text)
        rl = getattr(u, 'RLIMIT', 50) * (4 if tier == 'thorough' else 1)
        res = verus_run.run(path, rlimit=rl, extra=getattr(u, 'VERUS_EXTRA', ()))
        r.checker_cmd = 'verus <assembled %s> --rlimit %d %s (%s)' % (self.label, rl, ' '.join(getattr(u, 'VERUS_EXTRA', ())), res.get('verus_version') or 'verus')
        r.smt_ms = res.get('smt_ms', 0)
        for sk in getattr(asm, 'skipped', []):
            r.notes.append('not under contract: ' + sk)
        lost = [(it.name, w) for it in asm.items() for w in it.lost]
        for nm, w in lost:
            r.notes.append('lost hint anchor in %s: %s' % (nm, w))
        self._asm = asm
        fn_by_name = {}
        for f in res.get('functions', []):
            fn_by_name[f['name'].split('::', 1)[-1]] = f
        # bookkeeping of what is under contract
        for it in asm.items():
            f = fn_by_name.get(it.name)
            if it.name in self._want() or (f and f['mode'] == 'exec'):
                r.exec_functions.append({'name': it.name, 'file': os.path.relpath(it.src.path, REPO), 'line': it.first_line,
                                         'sha256': it.sha[:16], 'ms': f['ms'] if f else None,
                                         'verified': bool(f and f['success'])})
        r.obligations = len(res.get('functions', []))
        r.discharged = sum(1 for f in res.get('functions', []) if f['success'])
        r.lemmas = sum(1 for f in res.get('functions', []) if f['mode'] == 'proof')
        r.trusted = asm.trusted_scan(text)
        r.samples = getattr(u, 'SAMPLES', [])
        status = res['status']
        if status == 'verified':
            # vacuity guard (i): every listed exec function verified
            want = self._want()
            missing = [w for w in want if not (fn_by_name.get(w) and fn_by_name[w]['success'] and fn_by_name[w]['mode'] == 'exec')]
            if missing or (not want and not getattr(u, 'LEMMA_ONLY', False)):
                r.status = 'undecided'
                r.reason = 'vacuity-guard: exec functions not reported verified: %s' % missing
            # trusted-base allow-list
            allow = set(getattr(u, 'ALLOW_TRUSTED', []))
            import re as _re
            rxs = [_re.compile(x) for x in getattr(u, 'ALLOW_TRUSTED_RX', [])]
            extra = [t for t in r.trusted if t not in allow and not any(x.search(t) for x in rxs)]
            if extra:
                r.status = 'undecided'
                r.reason = 'trusted-base grew: %s' % extra
            if r.status == 'ok':
                self._canary(r, want)
            if r.status == 'ok' and tier == 'thorough':
                # stability: the same file under two other solver seeds; a proof that flips is reported as unstable (exit 2), not as a violation
                seeds = [int(os.environ.get('VERIF_SEED', '0') or 0) * 2 + 7, 91]
                r.stability = []
                for sd in seeds:
                    res2 = verus_run.run(path, rlimit=rl, extra=list(getattr(u, 'VERUS_EXTRA', ())) + ['--smt-option', 'smt.random_seed=%d' % sd])
                    r.stability.append({'seed': sd, 'status': res2['status'], 'verified': res2.get('verified'), 'smt_ms': res2.get('smt_ms')})
                    r.smt_ms += res2.get('smt_ms', 0)
                    if res2['status'] != 'verified':
                        r.status = 'undecided'
                        r.reason = 'unstable proof: verified with the default seed but %s with smt.random_seed=%d' % (res2['status'], sd)
        elif status == 'failed':
            for d in res.get('error_diags', []):
                loc = asm.locate(d['byte_start']) if d['byte_start'] is not None else {'in': '?'}
                # the obligation text: prefer the span labelled "failed this postcondition"/precondition
                obl = d['text']
                for bs, label, be in d.get('all_spans', []):
                    if label and ('failed this' in label or 'failed precondition' in label):
                        obl = ' '.join(text.encode()[bs:be].decode(errors='ignore').split())
                        loc2 = asm.locate(bs)
                        if loc.get('in') != 'item' and loc2.get('in') == 'item':
                            loc = loc2
                r.failures.append({'obligation': '%s: %s' % (d['message'], obl[:200]), 'function': loc.get('item', loc.get('file', '?')),
                                   'message': d['message'], 'file': os.path.relpath(loc['file'], REPO) if loc.get('file', '').startswith(REPO) else loc.get('file'),
                                   'line': loc.get('line'), 'verus': d['rendered'][-1500:]})
            r.status = 'violation'
            r.reason = 'obligation failed'
            if lost:
                r.reason = 'obligation failed after lost hint anchor'
            if self.own_only:
                want = self._want()
                mine = [f for f in r.failures if f.get('function') in want]
                for f in r.failures:
                    if f not in mine:
                        r.notes.append('failed obligation in a function owned by another part (not reported here): %s: %s' % (f.get('function'), f.get('obligation', '')[:160]))
                r.failures = mine
                if not mine:
                    missing = [w for w in want if not (fn_by_name.get(w) and fn_by_name[w]['success'] and fn_by_name[w]['mode'] == 'exec')]
                    if want and not missing:
                        r.status, r.reason = 'ok', 'own obligations discharged (a callee owned by another part failed its contract)'
                    else:
                        r.status, r.reason = 'undecided', 'own functions not reported verified: %s' % missing
        elif status in ('rlimit', 'timeout'):
            r.status = 'undecided'
            r.reason = 'resource-limit'
            r.notes.append(res.get('raw_err', '')[-1500:])
        else:
            r.status = 'undecided'
            r.reason = 'verus-rejected-input (unsupported construct or type error)'
            msgs = [d['message'] for d in res.get('diagnostics', []) if d['level'] == 'error'][:5]
            r.notes.append('; '.join(msgs) or res.get('raw_err', '')[-1500:])
        r.wall_s = time.time() - t0
        r._lost = lost
        return r

    def _canary(self, r, want):
        """vacuity guard (ii): with `assert(false)` at the start of every exec function body each of
        them must fail (a contradictory requires would make one pass)."""
        try:
            asm = self._assemble(True)
        except Exception as e:      # noqa
            r.status = 'undecided'
            r.reason = 'canary-assembly: ' + str(e)
            return
        text = asm.render()
        path = os.path.join(workdir(), _slug(self.label) + '_canary.rs')
        with open(path, 'w') as f:
            f.write(text)
        res = verus_run.run(path, rlimit=getattr(self.unit, 'CANARY_RLIMIT', 10), extra=getattr(self.unit, 'VERUS_EXTRA', ()))
        fn = {f['name'].split('::', 1)[-1]: f for f in res.get('functions', [])}
        passed = [w for w in want if fn.get(w) and fn[w]['success']]
        r.canary = {'functions': len(want), 'failed_as_required': len(want) - len(passed), 'smt_ms': res.get('smt_ms', 0)}
        r.smt_ms += res.get('smt_ms', 0)
        if passed or res['status'] == 'tool-error':
            r.status = 'undecided'
            r.reason = 'vacuity-guard: assert(false) at function entry did not fail in %s (%s)' % (passed, res['status'])
