"""C13 (bounded stand-in): the generated files are a function of the source text, the theory's file name and the compiler build only.
The compiler built from the current tree is run on the probe theories
  (a) twice in module mode into two different output directories, from two different input directories,
  (b) in component mode with RAYON_NUM_THREADS=1 and with RAYON_NUM_THREADS=8 (different degrees of parallelism in the component build),
and every generated TEXT file (module sources, component sources, digest files) must be byte-identical between the runs of each mode
(relative path by relative path).  Compiled libraries (.rlib) are not compared.  Never counted as proof."""
import hashlib
import os
import shutil
import subprocess
import time

from . import driver
from . import gen as G


def _tree(root):
    out = {}
    for d, _, files in os.walk(root):
        for f in files:
            if f.endswith(('.rlib', '.rmeta', '.o', '.d')):
                continue
            p = os.path.join(d, f)
            out[os.path.relpath(p, root)] = hashlib.sha256(open(p, 'rb').read()).hexdigest()
    return out


class CompileTwice:
    name = 'compile_twice'

    def __init__(self):
        self._r = None

    def _run(self):
        from units import gen as U
        r = driver.PartResult(self.name, 'bounded')
        t0 = time.time()
        r.rule = ('the compiler built from the current tree is run on the probe theories in module mode from/to two different directories, and in component mode with 1 and with 8 '
                  'rayon threads; every generated text file (module sources, component sources, digests) must be byte-identical between the two runs of a mode; '
                  'distinct = one comparison per generated file; non-trivial = component-mode files')
        r.checker_cmd = 'eqlog <in> <out> (x2) ; eqlog --build-type component (RAYON_NUM_THREADS=1 | 8) ; sha256 of every generated text file'
        try:
            exe = G.build_compiler()
        except Exception as e:     # noqa
            r.status, r.reason = 'undecided', 'compiler-build-failed'
            r.notes.append(str(e)[-1500:])
            return r
        wd = os.path.join(driver.workdir(), 'compile_det')
        shutil.rmtree(wd, ignore_errors=True)
        files = U.probe_files()

        def stage(tag):
            ind, outd = os.path.join(wd, tag, 'some', 'in_' + tag), os.path.join(wd, tag, 'out_' + tag)
            os.makedirs(ind)
            os.makedirs(outd)
            for f in files:
                shutil.copy(f, os.path.join(ind, os.path.basename(f)))
            return ind, outd

        def run(cmd, env=None):
            e = dict(os.environ)
            e.update(env or {})
            p = subprocess.run(cmd, env=e, stdout=subprocess.PIPE, stderr=subprocess.PIPE, text=True)
            if p.returncode != 0:
                raise RuntimeError('%s failed: %s' % (' '.join(cmd[:3]), (p.stderr or p.stdout)[-1500:]))

        def compare(a, b, what):
            ta, tb = _tree(a), _tree(b)
            for k in sorted(set(ta) | set(tb)):
                r.evaluations += 1
                if ta.get(k) != tb.get(k):
                    r.failures.append({'obligation': 'generated file %s differs between two runs (%s)' % (k, what), 'function': 'eqlog::process', 'message': '%s: %s differs (%s vs %s) -- compile-nondeterministic' % (what, k, (ta.get(k) or 'missing')[:12], (tb.get(k) or 'missing')[:12]),
                                       'input': what, 'native': self.name, 'class': 'compile-nondeterministic'})
            return len(ta)
        try:
            i1, o1 = stage('a')
            i2, o2 = stage('b')
            run([exe, i1, o1])
            run([exe, i2, o2])
            compare(o1, o2, 'module mode, two input/output directories')
            # component mode needs the runtime rlib
            rlib = os.path.join(wd, 'libeqlog_runtime.rlib')
            env = {'OUT_DIR': wd}
            run(['rustc', '--crate-type', 'rlib', '--crate-name', 'eqlog_runtime', '--edition', '2021', '--cap-lints', 'allow', os.path.join(driver.REPO, 'eqlog-runtime/src/lib.rs'), '-o', rlib], env)
            outs = []
            for tag, th in (('c1', '1'), ('c8', '8')):
                ind, outd = stage(tag)
                cod = os.path.join(wd, tag, 'components')
                os.makedirs(cod)
                run([exe, ind, outd, '--build-type', 'component', '--component-out-dir', cod, '--runtime-rlib-path', rlib], {'RAYON_NUM_THREADS': th})
                outs.append((outd, cod))
            n = compare(outs[0][0], outs[1][0], 'component mode, module sources, 1 vs 8 threads')
            n += compare(outs[0][1], outs[1][1], 'component mode, component sources and digests, 1 vs 8 threads')
            r.distinct_nontrivial = n
        except RuntimeError as e:
            r.status, r.reason = 'undecided', 'compile-run-failed'
            r.notes.append(str(e))
            r.wall_s = time.time() - t0
            return r
        r.exhaustive = True
        r.notes.append('bound: %d probe theories, 2 runs per mode' % len(files))
        if r.failures:
            r.status = 'violation'
        r.wall_s = time.time() - t0
        return r

    def sweep(self, tier):
        if self._r is None:
            self._r = self._run()
        return self._r

    def replay(self, inp):
        r = self._run()
        hit = [f for f in r.failures if f['input'] == inp]
        return ({'replay': 'fail', 'what': hit[0]['message']} if hit else {'replay': 'pass'}), None
