"""C15, static half (bounded stand-in): "the compiler accepts no rule and the API offers no call that could create an enum element other
than through a constructor".

(a) rules: the programs under /verif/probes/enum_static carry their expected verdict in the first line (`// expect: reject|accept`), derived
    from the property statement, not from the code: a `reject` program contains a rule that would create an element of an enum type through
    something that is not a constructor application (a non-constructor function made defined with `!`, in several positions; an unbound
    variable of enum type in a conclusion); its `accept` neighbours differ only in that the created term IS a constructor application, or
    that the type is a plain type, so that a compiler that rejects everything (or a probe with a typo) does not pass.  The compiler built
    from the current tree must exit with a diagnostic (not a panic) on every `reject` program and exit 0 on every `accept` program.
(b) API: in the module emitted for every probe theory with an enum type, every `pub fn` that takes `&mut self` and returns the enum type must
    be `new_<enum>(value: <Enum>Case)` or `define_<constructor>`; in particular no plain `new_<enum>()` and no `define_<f>` for a function
    `f` into the enum type that is not a constructor.

Bounded (programs are sampled), never counted as proof."""
import glob
import os
import re
import shutil
import subprocess
import time

from . import driver
from . import gen as G

DIR = os.path.join(driver.VERIF, 'probes', 'enum_static')


def snake(name):
    return re.sub(r'(?<!^)(?=[A-Z])', '_', name).lower()


def enums_of(src):
    """{enum name: [constructor names]} of an .eql source"""
    out = {}
    for m in re.finditer(r'\benum\s+(\w+)\s*\{(.*?)\}', src, re.S):
        out[m.group(1)] = re.findall(r'(\w+)\s*\(', m.group(2))
    return out


def api_violations(src, emitted):
    bad = []
    for en, ctors in enums_of(src).items():
        allowed = {'new_' + snake(en)} | {'define_' + snake(c) for c in ctors}
        for m in re.finditer(r'pub fn (\w+)\(&mut self,?\s*([^)]*)\)\s*->\s*%s\s*\{' % re.escape(en), emitted):
            fn, params = m.group(1), m.group(2).strip()
            if fn not in allowed:
                bad.append((fn, 'public function `%s(&mut self, %s) -> %s` can create an element of enum type %s and is neither new_%s(value: %sCase) nor define_<constructor>' % (fn, params, en, en, snake(en), en)))
            elif fn == 'new_' + snake(en) and not re.match(r'^\w+\s*:\s*%sCase\s*,?$' % re.escape(en), params):
                bad.append((fn, 'public function `%s(&mut self, %s) -> %s` creates an element of enum type %s without a constructor case' % (fn, params, en, en)))
    return bad


class EnumStatic:
    name = 'enum_static'

    def __init__(self):
        self._r = None

    def _compile(self, exe, f, wd, k):
        d = os.path.join(wd, str(k))
        ind, outd = os.path.join(d, 'in'), os.path.join(d, 'out')
        os.makedirs(ind)
        os.makedirs(outd)
        shutil.copy(f, ind)
        return subprocess.run([exe, ind, outd], stdout=subprocess.PIPE, stderr=subprocess.PIPE, text=True, timeout=600)

    def _run(self):
        from units import gen as U
        r = driver.PartResult(self.name, 'bounded')
        t0 = time.time()
        r.rule = ('static half: (a) every program of /verif/probes/enum_static marked `expect: reject` (a rule that would create an element of an enum type other than through a constructor '
                  'application) is rejected with a diagnostic by the compiler built from the current tree, every `expect: accept` neighbour (same rule with a constructor application / a plain '
                  'type) is accepted; (b) in the module emitted for every probe theory with an enum type every `pub fn (&mut self ..) -> <Enum>` is new_<enum>(value: <Enum>Case) or '
                  'define_<constructor>; distinct = one program; non-trivial = reject programs and API scans of enum probes')
        r.checker_cmd = 'python kit/enum_static.py: eqlog <program> for /verif/probes/enum_static/*.eql + scan of the emitted probe modules'
        try:
            exe = G.build_compiler()
            emitted = G.generate(U.probe_files())
        except Exception as e:     # noqa
            r.status, r.reason = 'undecided', 'compiler-build-or-run-failed'
            r.notes.append(str(e)[-1500:])
            return r
        wd = os.path.join(driver.workdir(), 'enum_static')
        shutil.rmtree(wd, ignore_errors=True)
        os.makedirs(wd)

        def fail(fn, cls, what, inp):
            r.failures.append({'obligation': what[:200], 'function': fn, 'message': what + ' -- ' + cls, 'input': inp, 'native': self.name, 'class': cls})
        files = sorted(glob.glob(os.path.join(DIR, '*.eql')))
        if not files:
            r.status, r.reason = 'undecided', 'no-static-probes-found'
            return r
        for k, f in enumerate(files):
            base = os.path.basename(f)
            first = open(f).readline()
            m = re.match(r'^// expect: (reject|accept)\s*$', first)
            if not m:
                r.status, r.reason = 'undecided', 'probe %s carries no expectation' % base
                return r
            p = self._compile(exe, f, wd, k)
            r.evaluations += 1
            out = (p.stderr + p.stdout).strip()
            head = out.split('\n')[0][:200] if out else ''
            if p.returncode == 101 or 'panicked at' in p.stderr or p.returncode < 0:
                fail('eqlog::process', 'enum-static-panic', 'the compiler panicked on %s: %s' % (base, out[-300:]), 'static:' + base)
            elif m.group(1) == 'reject':
                r.distinct_nontrivial += 1
                if p.returncode == 0:
                    fail('semantics::check_eqlog', 'enum-static-accepted', 'the compiler ACCEPTS %s, a program whose rule creates an element of an enum type other than through a constructor' % base, 'static:' + base)
                elif not out.startswith('Error'):
                    fail('semantics::check_eqlog', 'enum-static-accepted', '%s is refused without a diagnostic (exit %d: %s)' % (base, p.returncode, head), 'static:' + base)
            else:
                if p.returncode != 0:
                    fail('semantics::check_eqlog', 'enum-static-neighbour-rejected', 'the compiler rejects %s, which creates enum elements only through constructors (or none at all): %s' % (base, head), 'static:' + base)
        for k in sorted(emitted):
            model = k.split('.')[0]
            src_f = [f for f in U.probe_files() if os.path.basename(f).split('.')[0].replace('_', '') == model.replace('_', '')]
            if not src_f:
                continue
            src = open(src_f[0]).read()
            if not enums_of(src):
                continue
            r.evaluations += 1
            r.distinct_nontrivial += 1
            for fn, what in api_violations(src, open(emitted[k]).read()):
                fail(fn, 'enum-api', 'module emitted for %s: %s' % (os.path.basename(src_f[0]), what), 'api:' + model)
        r.exhaustive = True
        r.notes.append('bound: %d static programs (%d must be rejected), API scan of the enum probes' % (len(files), sum(1 for f in files if 'reject' in open(f).readline())))
        if r.failures:
            r.status = 'violation'
        r.wall_s = time.time() - t0
        return r

    def sweep(self, tier):
        if self._r is None:
            self._r = self._run()
        return self._r

    def replay(self, inp):
        r = self._run()
        hit = [f for f in r.failures if f['input'] == inp]
        return ({'replay': 'fail', 'what': hit[0]['message']} if hit else {'replay': 'pass'}), None


class SurjStatic(EnumStatic):
    """C06, compile-time half (bounded stand-in): a program WITHOUT `!` whose rule needs an element that the premise does not provide (an
    application or variable in a conclusion that does not occur earlier, both sides of a concluded equation undefined) must be rejected --
    otherwise close() would have to allocate an element or leave the rule unsatisfied; the neighbours (term bound in the premise, an equation
    that gives an undefined application an EXISTING value, the same rule with `!`) must be accepted.  Expectations come from the statement."""
    name = 'surj_static'

    def _run(self):
        r = driver.PartResult(self.name, 'bounded')
        t0 = time.time()
        r.rule = ('compile-time half: every program of /verif/probes/surj_static marked `expect: reject` (no `!`, but a conclusion needs an element the premise does not provide) is rejected with '
                  'a diagnostic by the compiler built from the current tree; every `expect: accept` neighbour is accepted; distinct = one program; non-trivial = reject programs')
        r.checker_cmd = 'python kit/enum_static.py (SurjStatic): eqlog <program> for /verif/probes/surj_static/*.eql'
        try:
            exe = G.build_compiler()
        except Exception as e:     # noqa
            r.status, r.reason = 'undecided', 'compiler-build-failed'
            r.notes.append(str(e)[-1500:])
            return r
        wd = os.path.join(driver.workdir(), 'surj_static')
        shutil.rmtree(wd, ignore_errors=True)
        os.makedirs(wd)
        files = sorted(glob.glob(os.path.join(driver.VERIF, 'probes', 'surj_static', '*.eql')))
        if not files:
            r.status, r.reason = 'undecided', 'no-static-probes-found'
            return r
        for k, f in enumerate(files):
            base = os.path.basename(f)
            m = re.match(r'^// expect: (reject|accept)\s*$', open(f).readline())
            if not m:
                r.status, r.reason = 'undecided', 'probe %s carries no expectation' % base
                return r
            p = self._compile(exe, f, wd, k)
            r.evaluations += 1
            out = (p.stderr + p.stdout).strip()
            head = out.split('\n')[0][:200] if out else ''
            what = cls = None
            if p.returncode == 101 or 'panicked at' in p.stderr or p.returncode < 0:
                what, cls = 'the compiler panicked on %s: %s' % (base, out[-300:]), 'grow-static-panic'
            elif m.group(1) == 'reject':
                r.distinct_nontrivial += 1
                if p.returncode == 0:
                    what, cls = 'the compiler ACCEPTS %s: no `!`, but a conclusion needs an element that the premise does not provide' % base, 'grow-static-accepted'
                elif not out.startswith('Error'):
                    what, cls = '%s is refused without a diagnostic (exit %d: %s)' % (base, p.returncode, head), 'grow-static-accepted'
            elif p.returncode != 0:
                what, cls = 'the compiler rejects %s, whose conclusions need no new element: %s' % (base, head), 'grow-static-neighbour-rejected'
            if what:
                r.failures.append({'obligation': what[:200], 'function': 'semantics::check_eqlog', 'message': what + ' -- ' + cls, 'input': 'static:' + base, 'native': self.name, 'class': cls})
        r.exhaustive = True
        r.notes.append('bound: %d static programs (%d must be rejected)' % (len(files), sum(1 for f in files if 'reject' in open(f).readline())))
        if r.failures:
            r.status = 'violation'
        r.wall_s = time.time() - t0
        return r
