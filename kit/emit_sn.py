"""C16 on the EMITTED code: the family of sub-rules the compiler (built from the current tree) emits for every rule of every probe theory.

The property speaks about "the family of sub-rules emitted into the generated code"; `to_semi_naive`/`sort_premise` in isolation
(unit SN) cannot see what the passes around them do (a pass reordered in flatten() changes the emitted family without touching either
function).  This part therefore evaluates the same executable contract on the END of the pipeline: it parses, from the emitted module of
each probe, the flat-rule comment above every rule function (atoms with their ages, conclusions), the index fields the function body
really reads for each premise position (`let set<i>_<rel>_<age>_.._r0 = env.<field>`), and the exported dispatcher, and checks

  A  all sub-rules of a family (rule, stage) have the same atoms and the same conclusions;
  B  for every labelling of the distinct atoms as new/old, exactly one sub-rule accepts if some atom is new and none if all are old
     (an atom read as `all` accepts both labels);
  C  the ages in the comment are the ages of the fields the code reads for that premise position (all = new and old);
  D  the exported rule function calls every sub-rule function of its rule exactly once;
  E  the implicit functionality rule reads (new, all) of the same relation (symmetric in its two atoms).

Bounded (programs are the probes), never counted as proof."""
import itertools
import os
import re
import time

from . import driver
from . import gen as G


class ParseError(Exception):
    pass


RULE_RX = re.compile(r'^// rule (\w+):\n// if:\n((?:// - .*\n|// ?\n)*)// then:\n((?:// - .*\n|// ?\n)*)fn (\w+)\(env: &mut (\w+)\) \{', re.M)
ATOM_RX = re.compile(r'^// - (.*?)(?: \[(new|old|all)\])?$')
SET_RX = re.compile(r'let set(\d+)_\w+?_r0 =\s*env\.(\w+)\s*;')
FIELD_AGE_RX = re.compile(r'_(new|old)(?:_eqs_[0-9_]+)?_order_[0-9_]*(?:_own|_all)?$')


def parse_module(text):
    subs = []
    ms = list(RULE_RX.finditer(text))
    for k, m in enumerate(ms):
        name = m.group(1)
        if m.group(4) != name:
            raise ParseError('comment names rule %s but the function is %s' % (name, m.group(4)))
        atoms = []
        for line in m.group(2).splitlines():
            if not line.strip('/ ').strip():
                continue        # an empty premise is printed as an empty comment line
            am = ATOM_RX.match(line)
            if not am or not am.group(2):
                raise ParseError('premise line of %s not understood: %r' % (name, line))
            atoms.append((am.group(1).strip(), am.group(2)))
        then = [ATOM_RX.match(line).group(1).strip() for line in m.group(3).splitlines() if line.strip('/ ').strip()]
        end = ms[k + 1].start() if k + 1 < len(ms) else len(text)
        stop = text.find('#[unsafe(no_mangle)]', m.end())
        if 0 <= stop < end:
            end = stop
        body = text[m.end():end]
        code = {}
        for sm in SET_RX.finditer(body):
            fm = FIELD_AGE_RX.search(sm.group(2))
            if not fm:
                raise ParseError('%s reads field %s whose age is not recognisable' % (name, sm.group(2)))
            code.setdefault(int(sm.group(1)), set()).add(fm.group(1))
        fam = re.match(r'^(.*)_(\d+)_(\d+)$', name)
        if not fam and not atoms:
            # a rule (stage) with an empty premise is emitted once, without a sub-rule index: <rule>_<stage>
            e = re.match(r'^(.*)_(\d+)$', name)
            fam = re.match(r'^(.*)_(\d+)_(\d+)$', name + '_0') if e else None
        fn_m = re.match(r'^functionality_(\d+)$', name)
        subs.append({'name': name, 'env': m.group(5), 'atoms': atoms, 'then': then, 'code': code,
                     'family': (fam.group(1), int(fam.group(2))) if fam and not fn_m else None, 'functionality': bool(fn_m)})
    # exported dispatchers
    disp = {}
    for dm in re.finditer(r'pub fn (eql_\w+)\(mut env: (\w+)\) \{\n((?:\w+\(&mut env\);\n)*)\}', text):
        disp[dm.group(2)] = re.findall(r'(\w+)\(&mut env\);', dm.group(3))
    return subs, disp


def accepts(age, label):
    return age == 'all' or age == label


def check_module(model, text):
    """returns (evaluations, nontrivial, [failures]) ; failure = dict(function, class, what, input)"""
    subs, disp = parse_module(text)
    if not subs:
        raise ParseError('no rule functions found in the emitted module of ' + model)
    fails = []
    evals = 0
    nontriv = 0

    def fail(fn, cls, what, inp):
        fails.append({'function': fn, 'class': cls, 'what': '%s: %s -- %s' % (fn, what, cls), 'input': 'emit:%s:%s' % (model, inp)})

    fams = {}
    for s in subs:
        # C: comment ages == code ages, per premise position
        for i, (atom, age) in enumerate(s['atoms']):
            want = {'new', 'old'} if age == 'all' else {age}
            got = s['code'].get(i, set())
            evals += 1
            if got != want:
                fail(s['name'], 'code-age', 'premise atom %d `%s` is declared [%s] but the code reads the %s index fields' % (i, atom, age, '+'.join(sorted(got)) or 'no'), s['name'])
        if set(s['code']) - set(range(len(s['atoms']))):
            fail(s['name'], 'code-age', 'the code reads index fields for premise positions %s that the flat rule does not have' % sorted(set(s['code']) - set(range(len(s['atoms'])))), s['name'])
        if s['functionality']:
            evals += 1
            ok = len(s['atoms']) == 2 and [a for _, a in s['atoms']] == ['new', 'all'] and s['atoms'][0][0].split('(')[0] == s['atoms'][1][0].split('(')[0]
            if not ok:
                fail(s['name'], 'functionality', 'implicit functionality rule must read (new, all) of one relation, found %s' % s['atoms'], s['name'])
            continue
        if s['family'] is None:
            raise ParseError('rule function name %s is neither <rule>_<stage>_<i> nor functionality_<n>' % s['name'])
        fams.setdefault(s['family'], []).append(s)
    for (rule, stage), members in sorted(fams.items()):
        fname = '%s_%d' % (rule, stage)
        ref = members[0]
        atoms0 = sorted(a for a, _ in ref['atoms'])
        for s in members[1:]:
            evals += 1
            if sorted(a for a, _ in s['atoms']) != atoms0 or s['then'] != ref['then']:
                fail(s['name'], 'family', 'sub-rules of family %s differ in atoms or conclusions: %s / %s vs %s / %s' % (fname, sorted(a for a, _ in s['atoms']), s['then'], atoms0, ref['then']), fname)
        distinct = sorted(set(atoms0))
        if len(distinct) > 10:
            continue
        if len(distinct) >= 2:
            nontriv += 1
        for lab in itertools.product(('new', 'old'), repeat=len(distinct)):
            L = dict(zip(distinct, lab))
            n_acc = [s['name'] for s in members if all(accepts(age, L[a]) for a, age in s['atoms'])]
            want = 1 if 'new' in lab else 0
            if not distinct:
                want = None       # empty premise: run once per dirty flag, not part of this property
            evals += 1
            if want is not None and len(n_acc) != want:
                fail(fname, 'count', 'labelling %s: a match is enumerated by %d sub-rule(s) %s, expected %d' % (', '.join('%s=%s' % (a, L[a]) for a in distinct), len(n_acc), n_acc, want), fname)
                break
    # D: dispatchers
    by_env = {}
    for s in subs:
        by_env.setdefault(s['env'], []).append(s['name'])
    for env, names in by_env.items():
        evals += 1
        calls = disp.get(env)
        if calls is None:
            raise ParseError('no exported function takes %s' % env)
        if sorted(calls) != sorted(names):
            fail(env, 'dispatch', 'the exported rule function calls %s but the sub-rule functions are %s' % (calls, names), env)
    return evals, nontriv, fails


class EmitSN:
    """bounded part with the interface of driver.Native (sweep / replay)"""
    name = 'emit_sn'

    def __init__(self):
        self._cache = {}

    def _run(self):
        from units import gen as U
        r = driver.PartResult(self.name, 'bounded')
        t0 = time.time()
        r.rule = ('for every probe theory: the sub-rule families of the module emitted by the compiler built from the current tree, parsed from the flat-rule comments, the index '
                  'fields each rule function reads, and the exported dispatchers: same atoms/conclusions per family; for every new/old labelling of the distinct atoms exactly one '
                  'sub-rule accepts iff some atom is new; comment ages == fields read; every sub-rule called once; functionality rules read (new, all); distinct by construction; '
                  'non-trivial = family with at least two distinct atoms')
        r.checker_cmd = 'python kit/emit_sn.py on the modules emitted for /verif/probes/*.eql'
        try:
            out = G.generate(U.probe_files())
        except Exception as e:       # noqa
            r.status = 'undecided'
            r.reason = 'compiler-build-or-run-failed'
            r.notes.append(str(e)[-1500:])
            return r
        r.exhaustive = True
        for k in sorted(out):
            model = k.split('.')[0]
            try:
                ev, nt, fails = check_module(model, open(out[k]).read())
            except ParseError as e:
                r.status = 'undecided'
                r.reason = 'emitted-format-not-understood: ' + str(e)
                r.wall_s = time.time() - t0
                return r
            r.evaluations += ev
            r.distinct_nontrivial += nt
            for f in fails:
                r.failures.append({'obligation': 'executable contract of the emitted sub-rule family violated: ' + f['what'][:160], 'function': f['function'], 'message': f['what'],
                                   'input': f['input'], 'native': self.name, 'class': f['class']})
        r.notes.append('bound: the rules of the probe theories (%d modules)' % len(out))
        if r.failures:
            r.status = 'violation'
        r.wall_s = time.time() - t0
        return r

    def sweep(self, tier):
        if 'r' not in self._cache:
            self._cache['r'] = self._run()
        return self._cache['r']

    def replay(self, inp):
        r = self._run()
        hit = [f for f in r.failures if f['input'] == inp]
        if hit:
            return {'replay': 'fail', 'what': hit[0]['message']}, None
        return {'replay': 'pass'}, None
