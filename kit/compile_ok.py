"""C09 (bounded stand-in): every accepted program yields Rust that compiles, in both build modes.
For every probe theory (and, in the thorough tier, every theory of eqlog-test-eval/src that the compiler accepts) the compiler built from the
current tree is run in module mode and in component mode; it must exit 0 without panicking (a rejection with a diagnostic means the theory is
not an accepted program and is skipped), the emitted module must compile with rustc against the runtime, and -- component mode -- the
component libraries must have been compiled by the compiler itself (it calls rustc) and the emitted module must compile as well.
Never counted as proof: programs are sampled."""
import glob
import os
import shutil
import subprocess
import time

from . import driver
from . import gen as G


class CompileOk:
    name = 'compile_ok'

    def __init__(self):
        self._r = {}

    def sweep(self, tier):
        if tier in self._r:
            return self._r[tier]
        from units import gen as U
        r = driver.PartResult(self.name, 'bounded')
        t0 = time.time()
        r.rule = ('for every sampled theory the compiler (built from the current tree) runs in module mode and in component mode; exit status 0 (a diagnostic + exit 1 = not an accepted '
                  'program, skipped; a panic = failure), then rustc must accept the emitted module (--crate-type lib, against a fresh eqlog-runtime) in both modes, and in component mode '
                  'the compiler must have compiled every component library; distinct = one theory x mode; non-trivial = theory with at least one rule')
        try:
            exe = G.build_compiler()
        except Exception as e:     # noqa
            r.status, r.reason = 'undecided', 'compiler-build-failed'
            r.notes.append(str(e)[-1500:])
            self._r[tier] = r
            return r
        files = list(U.probe_files())
        if tier == 'thorough':
            files += sorted(glob.glob(os.path.join(driver.REPO, 'eqlog-test-eval', 'src', '*.eql')))
        wd = os.path.join(driver.workdir(), 'compile_ok')
        shutil.rmtree(wd, ignore_errors=True)
        os.makedirs(wd)
        env = dict(os.environ, OUT_DIR=wd)
        rlib = os.path.join(wd, 'libeqlog_runtime.rlib')
        p = subprocess.run(['rustc', '--crate-type', 'rlib', '--crate-name', 'eqlog_runtime', '--edition', '2021', '--cap-lints', 'allow',
                            os.path.join(driver.REPO, 'eqlog-runtime/src/lib.rs'), '-o', rlib], env=env, stdout=subprocess.PIPE, stderr=subprocess.PIPE, text=True)
        if p.returncode != 0:
            r.status, r.reason = 'undecided', 'runtime-does-not-compile'
            r.notes.append(p.stderr[-1500:])
            self._r[tier] = r
            return r

        def fail(theory, mode, what, detail):
            r.failures.append({'obligation': 'accepted program %s (%s mode): %s' % (theory, mode, what), 'function': 'eqlog::process', 'message': '%s [%s]: %s: %s -- %s' % (theory, mode, what, detail[-600:], 'compile-panic' if 'panic' in what else 'emitted-does-not-compile'),
                               'input': '%s|%s' % (theory, mode), 'native': self.name, 'class': 'compile-panic' if 'panic' in what else 'emitted-does-not-compile'})
        skipped = []
        for k, f in enumerate(files):
            th = os.path.basename(f)
            for mode in ('module', 'component'):
                d = os.path.join(wd, '%d_%s' % (k, mode))
                ind, outd, cod = os.path.join(d, 'in'), os.path.join(d, 'out'), os.path.join(d, 'components')
                for x in (ind, outd, cod):
                    os.makedirs(x)
                shutil.copy(f, os.path.join(ind, th))
                cmd = [exe, ind, outd] + (['--build-type', 'component', '--component-out-dir', cod, '--runtime-rlib-path', rlib, '--opt-level', '0'] if mode == 'component' else [])
                p = subprocess.run(cmd, env=env, stdout=subprocess.PIPE, stderr=subprocess.PIPE, text=True)
                r.evaluations += 1
                if p.returncode != 0:
                    if p.returncode == 101 or 'panicked at' in p.stderr:
                        fail(th, mode, 'the compiler panicked', p.stderr)
                    elif 'Rustc finished with status' in p.stderr or 'error[E' in p.stderr:
                        fail(th, mode, 'a component library emitted for an accepted program does not compile', p.stderr)
                    else:
                        skipped.append('%s (%s): rejected with a diagnostic' % (th, mode))
                    continue
                if open(f).read().count('rule ') > 0:
                    r.distinct_nontrivial += 1
                mods = [os.path.join(root, fn) for root, _, fns in os.walk(outd) for fn in fns if fn.endswith('.rs')]
                for m in mods:
                    q = subprocess.run(['rustc', '--crate-type', 'lib', '--crate-name', 'probe', '--edition', '2021', '--cap-lints', 'allow', '--emit', 'metadata',
                                        '--extern', 'eqlog_runtime=' + rlib, '-o', os.path.join(d, 'probe.rmeta'), m], env=env, stdout=subprocess.PIPE, stderr=subprocess.PIPE, text=True)
                    if q.returncode != 0:
                        fail(th, mode, 'the emitted module does not compile', q.stderr)
        r.exhaustive = True
        r.notes.append('bound: %d theories x 2 build modes%s' % (len(files), ('; skipped: ' + '; '.join(skipped)) if skipped else ''))
        if r.failures:
            r.status = 'violation'
        r.wall_s = time.time() - t0
        self._r[tier] = r
        return r

    def replay(self, inp):
        r = self.sweep('thorough' if 'eqlog-test-eval' in inp else 'quick')
        hit = [f for f in r.failures if f['input'] == inp]
        return ({'replay': 'fail', 'what': hit[0]['message']} if hit else {'replay': 'pass'}), None
