"""Unit GEN support: build the compiler from /repo's working tree, run it on the probe theories, parse the
emitted module and GENERATE the representation invariant and the contracts of the straight-line API
functions from the field names of the emitted model struct (convention of display_index_field_name).
The contracts are then spliced onto the real emitted text by kit.extract like for any other unit."""
import os
import re
import subprocess

from . import driver
from .extract import Source, LostAnchor

FIELD_RX = re.compile(r'^(?P<rel>\w+?)_(?P<age>new|old)(?:_eqs_(?P<eqs>[0-9_]+))?_order_(?P<order>[0-9_]*)$')


class Unsupported(Exception):
    pass


def build_compiler():
    """cargo build -p eqlog --bin eqlog in /repo (the repository's own target dir); returns the binary path"""
    env = dict(os.environ)
    env['CARGO_NET_OFFLINE'] = 'true'
    p = subprocess.run(['cargo', 'build', '--offline', '-p', 'eqlog', '--bin', 'eqlog', '--quiet'], cwd=driver.REPO, env=env,
                       stdout=subprocess.PIPE, stderr=subprocess.PIPE, text=True)
    if p.returncode != 0:
        raise RuntimeError('the eqlog compiler does not build from the current tree:\n' + p.stderr[-3000:])
    return os.path.join(driver.REPO, 'target', 'debug', 'eqlog')


_GEN_CACHE = {}


def generate(probe_files):
    """run the compiler (module mode) on the given .eql files; returns {basename: path of emitted .rs}"""
    key = tuple(probe_files)
    if key in _GEN_CACHE:
        return _GEN_CACHE[key]
    out = _generate(probe_files)
    _GEN_CACHE[key] = out
    return out


def _generate(probe_files):
    exe = build_compiler()
    import hashlib
    # one directory per set of input files (a smaller set must not see the files of a larger one compiled earlier in the same run)
    wd = os.path.join(driver.workdir(), 'gen_probes_' + hashlib.sha1('|'.join(probe_files).encode()).hexdigest()[:10])
    ind, outd = os.path.join(wd, 'in'), os.path.join(wd, 'out')
    os.makedirs(ind, exist_ok=True)
    os.makedirs(outd, exist_ok=True)
    for f in probe_files:
        with open(os.path.join(ind, os.path.basename(f)), 'w') as g:
            g.write(open(f).read())
    p = subprocess.run([exe, ind, outd], stdout=subprocess.PIPE, stderr=subprocess.PIPE, text=True)
    if p.returncode != 0:
        raise RuntimeError('the eqlog compiler failed on the probe theories:\n' + (p.stderr or p.stdout)[-3000:])
    out = {}
    for root, _, files in os.walk(outd):
        for fn in files:
            if fn.endswith('.rs'):
                out[fn] = os.path.join(root, fn)
    return out


def generate_components(probe_files, runtime_rlib, opt_level='0'):
    """run the compiler in COMPONENT mode on the probe files; returns ({basename: emitted .rs}, component dir)"""
    exe = build_compiler()
    wd = os.path.join(driver.workdir(), 'gen_probes_component')
    ind, outd, cod = os.path.join(wd, 'in'), os.path.join(wd, 'out'), os.path.join(wd, 'components')
    for d in (ind, outd, cod):
        os.makedirs(d, exist_ok=True)
    for f in probe_files:
        with open(os.path.join(ind, os.path.basename(f)), 'w') as g:
            g.write(open(f).read())
    p = subprocess.run([exe, ind, outd, '--build-type', 'component', '--component-out-dir', cod, '--runtime-rlib-path', runtime_rlib, '--opt-level', opt_level],
                       stdout=subprocess.PIPE, stderr=subprocess.PIPE, text=True)
    if p.returncode != 0:
        raise RuntimeError('the eqlog compiler failed on the probe theories (component build):\n' + (p.stderr or p.stdout)[-3000:])
    out = {}
    for root, _, files in os.walk(outd):
        for fn in files:
            if fn.endswith('.rs'):
                out[fn] = os.path.join(root, fn)
    return out, cod


class Copy:
    def __init__(self, field, rel, age, eqs, order, tree_arity):
        self.field, self.rel, self.age, self.eqs, self.order, self.tree_arity = field, rel, age, eqs, order, tree_arity


class Model:
    """what the emitted module says about itself"""

    def __init__(self, path):
        self.src = Source(path)
        t = self.src.text
        m = re.search(r'type Model = (\w+);', t)
        if not m:
            raise Unsupported('no `type Model = ..;` in the emitted module')
        self.name = m.group(1)
        self.struct = self.src.item(r'pub struct %s\s*\{' % self.name, name=self.name)
        self.impl = None
        for it in self.src.items_all(r'impl %s\s*\{' % self.name, self.name):
            if re.search(r'fn close_until', it.orig):
                self.impl = it
        if self.impl is None:
            raise Unsupported('impl block of the model not found')
        body = self.struct.orig[self.struct.body_open + 1:-1]
        self.fields = []
        for line in body.split('\n'):
            line = line.strip().rstrip(',')
            if not line or line.startswith('//'):
                continue
            fm = re.match(r'(\w+)\s*:\s*(.+)$', line)
            if not fm:
                raise Unsupported('cannot parse field line %r' % line)
            self.fields.append((fm.group(1), fm.group(2).strip()))
        # types: <t>_equalities: Unification<T>
        self.types = {}          # snake -> Camel
        for f, ty in self.fields:
            fm = re.match(r'(\w+)_equalities$', f)
            tm = re.match(r'Unification<(\w+)>$', ty)
            if fm and tm:
                self.types[fm.group(1)] = tm.group(1)
        # relations: insert_<rel>(&mut self, el0: T0, ...)
        self.rels = {}           # name -> [type Camel]
        for m in re.finditer(r'pub fn insert_(\w+)\(&mut self,([^)]*)\)', self.impl.orig):
            args = [a.strip() for a in m.group(2).split(',') if a.strip()]
            self.rels[m.group(1)] = [a.split(':')[1].strip() for a in args]
        camel2snake = {v: k for k, v in self.types.items()}
        self.rel_types = {r: [camel2snake[c] for c in tys] for r, tys in self.rels.items()}
        # copies
        self.copies = []
        self.typesets = {}       # type snake -> {age: field}
        known = set()
        for f, ty in self.fields:
            fm = FIELD_RX.match(f)
            if not fm or not ty.startswith('PrefixTree'):
                continue
            # the rel name is the longest prefix that is a relation (or a type for type sets)
            rel = None
            for cand in sorted(list(self.rels) + list(self.types), key=len, reverse=True):
                if f.startswith(cand + '_new_') or f.startswith(cand + '_old_'):
                    rel = cand
                    break
            if rel is None:
                raise Unsupported('index field %s belongs to no known relation' % f)
            rest = re.match(r'^(new|old)(?:_eqs_([0-9_]+))?_order_([0-9_]*)$', f[len(rel) + 1:])
            if not rest:
                raise Unsupported('index field %s does not follow <rel>_<age>[_eqs_..]_order_..' % f)
            age, eqs, order = rest.group(1), rest.group(2), rest.group(3)
            arity = int(ty[len('PrefixTree'):])
            if rel in self.types and rel not in self.rels:
                self.typesets.setdefault(rel, {})[age] = f
            else:
                eqs_l = [int(x) for x in eqs.split('_')] if eqs else None
                order_l = [int(x) for x in order.split('_')] if order else []
                self.copies.append(Copy(f, rel, age, eqs_l, order_l, arity))
            known.add(f)
        for f, ty in self.fields:
            if f in known:
                continue
            if re.match(r'\w+_(equalities|weights|uprooted|element_index)$', f) or f == 'empty_join_is_dirty':
                continue
            if ty == 'ModelDelta':
                # conclusions an early-returning close_until could not apply yet; only close_until touches it, no invariant speaks about it
                self.delta_fields = getattr(self, 'delta_fields', []) + [f]
                continue
            raise Unsupported('field %s: %s of the model struct is not understood by the contract generator' % (f, ty))

    def primary(self, rel, age):
        cs = [c for c in self.copies if c.rel == rel and c.age == age and c.eqs is None]
        if not cs:
            raise Unsupported('relation %s has no plain %s index' % (rel, age))
        n = len(self.rels[rel])
        for c in cs:
            if c.order == list(range(n)):
                return c
        return cs[0]

    def element_indices(self, rel):
        """[(type snake, field, [positions of that type])] for the per-element row lists of relation `rel`"""
        out = []
        tys = self.rel_types[rel]
        for t in sorted(set(tys)):
            f = '%s_%s_element_index' % (rel, t)
            if any(x == f for x, _ in self.fields):
                out.append((t, f, [i for i, x in enumerate(tys) if x == t]))
        return out

    def tree_arities(self):
        s = set(c.tree_arity for c in self.copies)
        s.add(1)
        return sorted(s)


def seq_lit(elems):
    return 'tup%d(%s)' % (len(elems), ', '.join(elems))


def copy_index_map(model, c):
    """for a copy C of relation R: (m, [a_0..a_{N-1}]) such that the canonical tuple of a stored tuple s is t[j] = s[a_j]"""
    n = len(model.rels[c.rel])
    if c.eqs is None:
        inv = [None] * n
        for i, o in enumerate(c.order):
            inv[o] = i
        return n, inv
    kept = [i for i in range(n) if c.eqs[i] == i]
    pos_in_kept = {k: idx for idx, k in enumerate(kept)}
    invorder = [None] * len(kept)
    for i, o in enumerate(c.order):
        invorder[o] = i
    return len(kept), [invorder[pos_in_kept[c.eqs[i]]] for i in range(n)]


def stored_of_canonical(model, c, names):
    """the stored tuple (list of expressions) of copy c for canonical components `names`"""
    n = len(model.rels[c.rel])
    if c.eqs is None:
        return [names[o] for o in c.order]
    kept = [i for i in range(n) if c.eqs[i] == i]
    red = [names[k] for k in kept]
    return [red[o] for o in c.order]


def diag_condition(model, c, names):
    n = len(model.rels[c.rel])
    conds = ['%s == %s' % (names[i], names[c.eqs[i]]) for i in range(n) if c.eqs[i] != i]
    return ' && '.join(conds) if conds else 'true'


def ghost_impl(model):
    """ghost accessors + the representation invariant, as text inside `impl <Model> { .. }`"""
    L = []
    A = L.append
    for t, T in model.types.items():
        A('    pub closed spec fn n_%s(&self) -> int { self.%s_equalities.spec_len() }' % (t, t))
        A('    pub closed spec fn rep_%s(&self, i: int) -> int { self.%s_equalities.rep(i) }' % (t, t))
        A('    pub closed spec fn uprooted_%s(&self) -> Seq<%s> { self.%s_uprooted@ }' % (t, T, t))
        ts = model.typesets.get(t, {})
        parts = ['self.%s@.contains(tup1(i))' % f for f in ts.values()]
        A('    pub closed spec fn in_ts_%s(&self, i: u32) -> bool { %s }' % (t, ' || '.join(parts) if parts else 'false'))
        newp = ['self.%s@.contains(tup1(i))' % f for a, f in ts.items() if a == 'new']
        A('    pub closed spec fn in_ts_new_%s(&self, i: u32) -> bool { %s }' % (t, ' || '.join(newp) if newp else 'false'))
        A('    pub open spec fn is_root_%s(&self, i: u32) -> bool { i < self.n_%s() && self.rep_%s(i as int) == i }' % (t, t, t))
        A('    /// the representative `root_%s` must return' % t)
        A('    pub open spec fn root_%s_spec(&self, el: %s) -> %s { if el.0 < self.n_%s() { %s(self.rep_%s(el.0 as int) as u32) } else { el } }' % (t, T, T, t, T, t))
    A('    pub closed spec fn dirty_flag(&self) -> bool { self.empty_join_is_dirty }')
    for r in model.rels:
        n = len(model.rels[r])
        for age in ('new', 'old'):
            p = model.primary(r, age)
            if p.order == list(range(n)):
                body = 'self.%s@' % p.field
            else:
                body = 'ISet::new(|t: Seq<u32>| t.len() == %d && self.%s@.contains(%s))' % (n, p.field, seq_lit(['t[%d]' % o for o in p.order]))
            A('    /// the %s tuples of `%s` in declaration column order' % (age, r))
            A('    pub closed spec fn t_%s_%s(&self) -> ISet<Seq<u32>> { %s }' % (r, age, body))
        A('    pub open spec fn t_%s(&self) -> ISet<Seq<u32>> { self.t_%s_new().union(self.t_%s_old()) }' % (r, r, r))
    # invariant
    A('    /// representation invariant: every redundant copy of a relation is the image of its primary copy, diagonal copies hold exactly the')
    A('    /// rows satisfying ALL their equalities, stored components are existing elements, the type sets hold exactly the roots')
    A('    pub closed spec fn inv(&self) -> bool {')
    for t in model.types:
        A('        &&& self.%s_equalities.wf()' % t)
        A('        &&& self.%s_weights@.len() == self.n_%s()' % (t, t))
        A('        &&& 0 <= self.n_%s() < u32::MAX' % t)
        A('        &&& forall|i: u32| #[trigger] self.in_ts_%s(i) <==> self.is_root_%s(i)' % (t, t))
        for f in model.typesets.get(t, {}).values():
            A('        &&& self.%s.wf()' % f)
    for c in model.copies:
        A('        &&& self.%s.wf()' % c.field)
        p = model.primary(c.rel, c.age)
        if c is p:
            continue
        m, a = copy_index_map(model, c)
        A('        &&& self.%s@ =~= ISet::new(|s: Seq<u32>| s.len() == %d && self.t_%s_%s().contains(%s))'
          % (c.field, m, c.rel, c.age, seq_lit(['s[%d]' % x for x in a])))
    for r in model.rels:
        n = len(model.rels[r])
        A('        &&& forall|t: Seq<u32>| #[trigger] self.t_%s().contains(t) ==> t.len() == %d%s'
          % (r, n, ''.join(' && t[%d] < self.n_%s()' % (i, model.rel_types[r][i]) for i in range(n))))
        # the new/old PARTITION: no tuple is in both ages
        A('        &&& forall|t: Seq<u32>| !(#[trigger] self.t_%s_new().contains(t) && self.t_%s_old().contains(t))' % (r, r))
        # per-element row lists: every row of the relation is listed under each of its components (what canonicalize relies on)
        for ty, f, positions in model.element_indices(r):
            A('        &&& forall|row: Seq<u32>| #[trigger] self.t_%s().contains(row) ==> %s'
              % (r, ' && '.join('ei_has%d(&self.%s, row[%d], row)' % (n, f, i) for i in positions)))
    A('    }')
    return '\n'.join(L) + '\n'


def frame(model, except_rel=None, except_types=(), eq_unchanged=True, flag=True):
    """postcondition clauses: everything except the named parts is unchanged"""
    c = []
    for r in model.rels:
        if r == except_rel:
            c.append('final(self).t_%s_old() == old(self).t_%s_old()' % (r, r))
            continue
        c.append('final(self).t_%s_new() == old(self).t_%s_new()' % (r, r))
        c.append('final(self).t_%s_old() == old(self).t_%s_old()' % (r, r))
    for t in model.types:
        if t in except_types:
            continue
        c.append('final(self).n_%s() == old(self).n_%s()' % (t, t))
        c.append('forall|i: int| final(self).rep_%s(i) == old(self).rep_%s(i)' % (t, t))
        c.append('forall|i: u32| final(self).in_ts_new_%s(i) == old(self).in_ts_new_%s(i)' % (t, t))
        c.append('final(self).uprooted_%s() == old(self).uprooted_%s()' % (t, t))
    if flag:
        c.append('final(self).dirty_flag() == old(self).dirty_flag()')
    return c
