"""Mechanical extraction of items from /repo source files and insertion-only annotation.

Every annotated item is  ORIGINAL TEXT  +  a list of edits.  An edit is either
  * an *insertion* of ghost text (contract clauses, loop invariants, proof blocks, ghost lets,
    asserts, verifier attributes) at a position of the original text, or
  * one of the four *desugarings* listed in DESIGN.md §3.2 (named return value, pattern parameter,
    closure type ascription, block wrapping of an expression to host a proof block).
`Item.erase()` removes the insertions, undoes the desugarings and must give back the original bytes
(checked on every run, together with a syntactic check that inserted statement text is ghost-only).
Anchors are looked up in the ORIGINAL text only.
"""
import hashlib
import re

from . import rsparse as rp


class LostAnchor(Exception):
    def __init__(self, item, what, hard):
        Exception.__init__(self, '%s: %s' % (item, what))
        self.item = item
        self.what = what
        self.hard = hard          # hard = contract cannot be attached at all (signature / loop / item)


class NotGhost(Exception):
    pass


GHOST_STMT = re.compile(r'^(proof\s*\{|let\s+ghost\b|let\s+tracked\b|assert\s*\(|assert\s+forall\b|assert\s+by\b|reveal\s*\(|reveal_with_fuel\s*\(|broadcast\s+use\b|assume\s*\()')
SPEC_CLAUSE = re.compile(r'^\s*(requires|ensures|decreases|recommends|invariant|invariant_except_break|no_unwind|opens_invariants|returns)\b')
ATTR = re.compile(r'^\s*(#\[verifier::[a-z_]+(\([^\]]*\))?\]\s*)+$')


def check_ghost_statements(text, where):
    for st in rp.split_statements(text):
        s = rp.strip_comments(st).strip()
        if not s:
            continue
        if not GHOST_STMT.match(s):
            raise NotGhost('%s: inserted statement is not ghost-only: %r' % (where, s[:80]))
        if re.match(r'assume\s*\(', s):
            raise NotGhost('%s: `assume` is not allowed in hints' % where)


class Source:
    def __init__(self, path, text=None):
        self.path = path
        self.text = open(path, encoding='utf-8').read() if text is None else text
        self.mask = rp.code_mask(self.text)

    def _find_header(self, pattern, start, end, what):
        m = rp.find_code_re(self.text, self.mask, pattern, start, end)
        if not m:
            raise LostAnchor(what, 'item header /%s/ not found in %s' % (pattern, self.path), True)
        return m

    def item(self, pattern, name=None, within=None):
        """the item whose header matches `pattern` (regex, searched in program text only)"""
        s, e = (0, len(self.text)) if within is None else (within.body_start, within.end - 1)
        m = self._find_header(pattern, s, e, name or pattern)
        end = rp.item_end(self.text, self.mask, m.start())
        return Item(self, m.start(), end, name or pattern)

    def fn(self, fname, within=None, name=None):
        pat = r'(?m)^[ \t]*((pub(\([a-z]+\))?\s+)?(const\s+)?(unsafe\s+)?fn\s+%s\b)' % re.escape(fname)
        s, e = (0, len(self.text)) if within is None else (within.body_start, within.end - 1)
        pos = s
        while True:
            m = rp.find_code_re(self.text, self.mask, pat, pos, e)
            if not m:
                raise LostAnchor(name or fname, 'fn %s not found%s' % (fname, '' if within is None else ' in ' + within.name), True)
            # must be a direct child of `within` (depth 0 relative to its body)
            if within is None or self._depth(s, m.start(1)) == 0:
                break
            pos = m.end()
        st = m.start(1)
        end = rp.item_end(self.text, self.mask, st)
        nm = name or ((within.name + '::' if within is not None else '') + fname)
        return Item(self, st, end, nm)

    def items_all(self, pattern, name=None):
        """all items whose header matches pattern"""
        out = []
        pos = 0
        while True:
            m = rp.find_code_re(self.text, self.mask, pattern, pos)
            if not m:
                break
            end = rp.item_end(self.text, self.mask, m.start())
            out.append(Item(self, m.start(), end, name or pattern))
            pos = end
        return out

    def fn_in_impls(self, impl_pattern, impl_name, fname):
        """fn `fname` that is a direct child of one of the (possibly many) impl blocks matching impl_pattern"""
        for imp in self.items_all(impl_pattern, impl_name):
            try:
                return self.fn(fname, within=imp), imp
            except LostAnchor:
                continue
        raise LostAnchor('%s::%s' % (impl_name, fname), 'fn %s not found in any `%s` block' % (fname, impl_name), True)

    def _depth(self, a, b):
        d = 0
        for i in range(a, b):
            if self.mask[i]:
                if self.text[i] == '{':
                    d += 1
                elif self.text[i] == '}':
                    d -= 1
        return d

    def line_of(self, pos):
        return self.text.count('\n', 0, pos) + 1


class Item:
    def __init__(self, src, start, end, name):
        self.src = src
        self.start = start
        self.end = end
        self.name = name
        self.orig = src.text[start:end]
        self.mask = src.mask[start:end]
        b = rp.next_open_brace(self.orig, self.mask, 0)
        self.body_open = b                      # relative index of the body/block `{`, -1 if none
        self.body_start = start + b + 1 if b >= 0 else None   # absolute
        self.edits = []                         # (pos, seq, kind, old_len, new_text)
        self.lost = []                          # dropped hint anchors
        self._seq = 0
        self.sha = hashlib.sha256(self.orig.encode()).hexdigest()
        self.first_line = src.line_of(start)

    # -- helpers ---------------------------------------------------------------------------
    def header(self):
        """text up to and including the opening brace (for impl / mod wrappers)"""
        return self.orig[:self.body_open + 1]

    def _add(self, pos, kind, old_len, new):
        self.edits.append((pos, self._seq, kind, old_len, new))
        self._seq += 1

    def _anchor(self, anchor, occ, hard=False, what='hint'):
        pos = -1
        start = 0
        for _ in range(occ):
            pos = self.orig.find(anchor, start)
            if pos < 0:
                raise LostAnchor(self.name, '%s anchor %r (occurrence %d) not found' % (what, anchor.strip()[:70], occ), hard)
            start = pos + 1
        return pos

    # -- operations --------------------------------------------------------------------------
    def attr(self, text):
        if not ATTR.match(text):
            raise NotGhost('%s: attribute %r' % (self.name, text))
        self._add(0, 'ins', 0, text.rstrip() + '\n    ')
        return self

    def sig(self, spec='', prelude='', ret=None):
        """contract clauses between signature and body, ghost prelude right after `{`,
        and optionally a name for the return value."""
        if self.body_open < 0:
            raise LostAnchor(self.name, 'no body', True)
        if spec.strip():
            if not SPEC_CLAUSE.match(spec):
                raise NotGhost('%s: contract must start with a clause keyword' % self.name)
            self._add(self.body_open, 'ins', 0, '\n        ' + spec.strip() + '\n    ')
        if prelude.strip():
            check_ghost_statements(prelude, self.name + ' prelude')
            self._add(self.body_open + 1, 'ins', 0, '\n        ' + prelude.strip())
        if ret is not None:
            self._name_return(ret)
        return self

    def _name_return(self, ret):
        head = self.orig[:self.body_open]
        hm = self.mask[:self.body_open]
        # parameter list: first `(` at angle depth 0 after `fn name`
        m = re.search(r'\bfn\s+\w+', head)
        i = m.end()
        ang = 0
        while i < len(head):
            if hm[i]:
                if head.startswith('->', i):
                    i += 2
                    continue
                if head[i] == '<':
                    ang += 1
                elif head[i] == '>':
                    ang -= 1
                elif head[i] == '(' and ang == 0:
                    break
            i += 1
        close = rp.match_close(head, hm, i)
        arrow = rp.find_code(head, hm, '->', close)
        if arrow < 0:
            raise LostAnchor(self.name, 'no return type to name', True)
        ty_start = arrow + 2
        wm = rp.find_code_re(head, hm, r'\bwhere\b', ty_start)
        ty_end = wm.start() if wm else len(head)
        ty = head[ty_start:ty_end]
        lead = len(ty) - len(ty.lstrip())
        trail = len(ty) - len(ty.rstrip())
        core_start = ty_start + lead
        core_end = ty_end - trail
        self._add(core_start, 'ins', 0, '(%s: ' % ret)
        self._add(core_end, 'ins', 0, ')')

    def loop(self, n, spec):
        """invariant/decreases on the n-th loop (1-based, textual order) of the item"""
        if not SPEC_CLAUSE.match(spec):
            raise NotGhost('%s: loop spec must start with a clause keyword' % self.name)
        rx = re.compile(r'\b(while|for|loop)\b')
        pos = self.body_open + 1
        found = None
        for _ in range(n):
            m = rp.find_code_re(self.orig, self.mask, rx, pos)
            if not m:
                raise LostAnchor(self.name, 'loop #%d not found' % n, True)
            found = m
            pos = m.end()
        b = rp.next_open_brace(self.orig, self.mask, found.end())
        if b < 0:
            raise LostAnchor(self.name, 'loop #%d has no body' % n, True)
        self._add(b, 'ins', 0, '\n            ' + spec.strip() + '\n        ')
        return self

    def before(self, anchor, ghost, occ=1):
        check_ghost_statements(ghost, self.name)
        try:
            pos = self._anchor(anchor, occ)
        except LostAnchor as e:
            self.lost.append(e.what)
            return self
        self._add(pos, 'ins', 0, ghost.strip() + '\n        ')
        return self

    def after(self, anchor, ghost, occ=1):
        check_ghost_statements(ghost, self.name)
        try:
            pos = self._anchor(anchor, occ)
        except LostAnchor as e:
            self.lost.append(e.what)
            return self
        self._add(pos + len(anchor), 'ins', 0, '\n        ' + ghost.strip())
        return self

    def wrap(self, open_anchor, close_anchor, ghost, occ=1, close_occ=1, after=False):
        """desugaring 4: `E` => `{ <ghost> E }` where E starts right after open_anchor and ends with
        close_anchor (first occurrence after the open anchor)."""
        check_ghost_statements(ghost, self.name)
        try:
            p = self._anchor(open_anchor, occ)
            a = p + len(open_anchor)
            q = a
            for _ in range(close_occ):
                q = self.orig.find(close_anchor, q + 1 if q != a else a)
                if q < 0:
                    raise LostAnchor(self.name, 'wrap close anchor %r not found' % close_anchor.strip()[:60], False)
            b = q + len(close_anchor)
        except LostAnchor as e:
            self.lost.append(e.what)
            return self
        if after:
            # `E` => `{ E; <ghost> }` (only for expressions of type (), e.g. an assignment used as a match arm)
            self._add(a, 'wrap_open', 0, '{ ')
            self._add(b, 'wrap_close', 0, ';\n        ' + ghost.strip() + ' }')
        else:
            self._add(a, 'wrap_open', 0, '{ ' + ghost.strip() + '\n        ')
            self._add(b, 'wrap_close', 0, ' }')
        return self

    def closure(self, anchor, params, spec, occ=1, pat_var=None, tail=None, tail_name='cr__'):
        """desugaring 3: closure `|x| body` => `|x: T| -> (r: U) requires .. ensures .. { body }`.
        `anchor` is the text `|x|` (parameter list as written); `params` the ascribed parameter list
        with return type, e.g. `|n: &Rc<Node<V>>| -> (r: usize)`.  The closure body is the expression
        following the anchor; it is wrapped in braces (it must extend to the `)` that closes the call
        the closure is an argument of, or already be a block).
        pat_var: desugaring 1 for a closure with ONE pattern parameter: `|(k, _)| body` => `|p: T| { let (k, _) = p; body }`
                 (`params` must name the parameter `pat_var`; the `let` is generated from the anchor's own pattern text).
        tail:    desugaring 5 inside the closure: `body` => `let cr__ = body; <ghost> cr__` (ghost-only statements)."""
        pos = self._anchor(anchor, occ, hard=True, what='closure')
        a = pos + len(anchor)
        lets = ''
        if pat_var is not None:
            pat = anchor.strip()[1:-1].strip()
            if not re.match(r'^[\(\[][\w\s,]*[\)\]]$', pat) or not re.search(r'\b%s\s*:' % re.escape(pat_var), params):
                raise LostAnchor(self.name, 'closure %r: not a single tuple/array pattern parameter' % anchor, True)
            lets = 'let %s = %s; ' % (pat, pat_var)
        if tail is not None:
            check_ghost_statements(tail, self.name)
        # body extent
        j = a
        while self.orig[j].isspace():
            j += 1
        if self.orig[j] == '{':
            if lets or tail is not None:
                raise LostAnchor(self.name, 'closure %r: pattern / tail desugaring of a block body is not supported' % anchor, True)
            end = rp.match_close(self.orig, self.mask, j) + 1
            self._add(pos, 'clos', len(anchor), params + '\n            ' + spec.strip() + '\n          ')
        else:
            # extends to the closing paren of the enclosing call, or a top-level comma
            depth = 0
            k = j
            while True:
                if self.mask[k]:
                    ch = self.orig[k]
                    if ch in '([{':
                        depth += 1
                    elif ch in ')]}':
                        if depth == 0:
                            break
                        depth -= 1
                    elif ch == ',' and depth == 0:
                        break
                k += 1
            end = k
            self._add(pos, 'clos', len(anchor), params + '\n            ' + spec.strip() + '\n          { ' + lets + ('let %s = ' % tail_name if tail is not None else ''))
            self._add(end, 'wrap_close', 0, (';\n            ' + tail.strip() + '\n            ' + tail_name if tail is not None else '') + ' }')
        return self

    def pattern_params(self):
        """desugaring 1: array / tuple patterns in parameter position of a fn:
        `[a, b]: [u32; 2]` => `p0__: [u32; 2]` + `let a = p0__[0]; let b = p0__[1];` at body start."""
        head = self.orig[:self.body_open]
        lets = []
        idx = 0
        for m in re.finditer(r'(\[([\w\s,]*)\])\s*:\s*\[u32;\s*(\d+)\]', head):
            names = [x.strip() for x in m.group(2).split(',') if x.strip()]
            pn = 'p%d__' % idx
            idx += 1
            self._add(m.start(1), 'pat', len(m.group(1)), pn)
            for k, nm in enumerate(names):
                if nm != '_':
                    lets.append('let %s = %s[%d];' % (nm, pn, k))
        if lets:
            self._add(self.body_open + 1, 'patlet', 0, '\n        ' + ' '.join(lets))
        return self

    # -- rendering ---------------------------------------------------------------------------
    def _sorted(self):
        return sorted(self.edits, key=lambda e: (e[0], e[1]))

    def render(self):
        """returns (text, segments) where segments = [(start, end, origin)] in rendered coordinates,
        origin is ('orig', offset_in_item) or ('ins', kind)"""
        out = []
        segs = []
        cur = 0
        o = 0
        for pos, _, kind, old_len, new in self._sorted():
            if pos > o:
                chunk = self.orig[o:pos]
                segs.append((cur, cur + len(chunk), ('orig', o)))
                out.append(chunk)
                cur += len(chunk)
                o = pos
            segs.append((cur, cur + len(new), ('ins', kind)))
            out.append(new)
            cur += len(new)
            o = max(o, pos + old_len)
        chunk = self.orig[o:]
        segs.append((cur, cur + len(chunk), ('orig', o)))
        out.append(chunk)
        return ''.join(out), segs

    def erase(self):
        """undo everything: must reproduce the original bytes"""
        text, segs = self.render()
        # independent of render(): rebuild from the edit list by replaying replaced spans
        pieces = []
        replaced = {e[0]: self.orig[e[0]:e[0] + e[3]] for e in self.edits if e[3] > 0}
        for s, e, origin in segs:
            if origin[0] == 'orig':
                # any replaced span that ended right before this chunk is restored first
                pieces.append((origin[1], text[s:e]))
        rebuilt = []
        o = 0
        for off, chunk in pieces:
            if off > o:
                if o in replaced and o + len(replaced[o]) == off:
                    rebuilt.append(replaced[o])
                else:
                    raise AssertionError('erasure gap in %s at %d' % (self.name, o))
            rebuilt.append(chunk)
            o = off + len(chunk)
        return ''.join(rebuilt)

    def check_erasure(self):
        if self.erase() != self.orig:
            raise AssertionError('erasure check failed for ' + self.name)
        return True


# ------------------------------------------------------------------------------------------------
# `sub(old, new)`: convenience front end.  `new` must be `old` plus ghost text; the call is decomposed
# into the typed operations above (so the same validation and erasure apply) or rejected.

_CLAUSE_AT_LINE = re.compile(r'\n[ \t]*(requires|ensures|decreases|recommends|invariant|invariant_except_break)\b')
_BODY_BRACE_LINE = re.compile(r'\n[ \t]*\{[ \t]*(?=\n|$)')


def _sub(self, old, new, occ=1):
    if old in new and not (old.rstrip().endswith('{') and _CLAUSE_AT_LINE.search(new)):
        i = new.index(old)
        pre, post = new[:i], new[i + len(old):]
        if pre.strip():
            self.before(old, pre, occ)
        if post.strip():
            self.after(old, post, occ)
        return self
    o = old.rstrip()
    if o.endswith('{') and _CLAUSE_AT_LINE.search(new):
        m = _BODY_BRACE_LINE.search(new)
        if not m:
            raise NotGhost('%s: sub(): cannot find the body brace line in the replacement of %r' % (self.name, old[:60]))
        head, prelude = new[:m.start()], new[m.end():]
        c = _CLAUSE_AT_LINE.search(head)
        sighead, clauses = head[:c.start()], head[c.start():]
        pos = self._anchor(old, occ, hard=True, what='signature/loop')
        brace = pos + len(o) - 1
        first = o.split()[0] if o.split() else ''
        is_loop = first in ('loop', 'while', 'for')
        if is_loop:
            if ' '.join(sighead.split()) != ' '.join(o[:-1].split()):
                raise NotGhost('%s: sub(): loop header changed: %r vs %r' % (self.name, sighead, o[:-1]))
            if not SPEC_CLAUSE.match(clauses):
                raise NotGhost('%s: loop spec' % self.name)
            self._add(brace, 'ins', 0, '\n            ' + clauses.strip() + '\n        ')
            if prelude.strip():
                check_ghost_statements(prelude, self.name + ' loop prelude')
                self._add(brace + 1, 'ins', 0, '\n        ' + prelude.strip())
            return self
        if brace != self.body_open:
            raise NotGhost('%s: sub(): %r is not the signature of the item' % (self.name, old[:60]))
        rm = re.search(r'->\s*\((\w+):\s', sighead)
        ret = rm.group(1) if rm else None
        # the signature itself must be unchanged apart from the naming of the return value
        if ret:
            plain = re.sub(r'->\s*\(%s:\s*' % ret, '-> ', sighead, count=1).rstrip()
            if not plain.endswith(')'):
                raise NotGhost('%s: sub(): named return not closed' % self.name)
            plain = plain[:-1]
        else:
            plain = sighead
        if ''.join(plain.split()) != ''.join(o[:-1].split()):
            raise NotGhost('%s: sub(): signature text changed: %r vs %r' % (self.name, plain, o[:-1]))
        self.sig(spec=clauses, prelude=prelude, ret=ret)
        return self
    # multi-line old with ghost lines inserted between its lines
    ol = old.split('\n')
    nl = new.split('\n')
    pos = self._anchor_soft(old, occ)
    if pos is None:
        return self
    i = 0
    off = 0
    groups = []
    cur = []
    for ln in nl:
        if i < len(ol) and ln == ol[i]:
            if cur:
                groups.append((off, '\n'.join(cur)))
                cur = []
            off += len(ol[i]) + 1
            i += 1
        else:
            cur.append(ln)
    if i != len(ol):
        raise NotGhost('%s: sub(): replacement is not the original plus inserted lines: %r' % (self.name, old[:60]))
    if cur:
        groups.append((off - 1, '\n'.join(cur)))
    for off, ghost in groups:
        check_ghost_statements(ghost, self.name)
        self._add(pos + off, 'ins', 0, ghost.rstrip() + '\n')
    return self


def _anchor_soft(self, anchor, occ):
    try:
        return self._anchor(anchor, occ)
    except LostAnchor as e:
        self.lost.append(e.what)
        return None


Item.sub = _sub
Item._anchor_soft = _anchor_soft


def _tail_span(self):
    """(start, end) offsets in self.orig of the tail expression of the fn body, or None"""
    a, b = self.body_open + 1, len(self.orig) - 1
    text, mask = self.orig, self.mask
    depth = 0
    last = a
    i = a
    while i < b:
        if mask[i]:
            ch = text[i]
            if ch in '({[':
                depth += 1
            elif ch in ')}]':
                depth -= 1
            elif ch == ';' and depth == 0:
                last = i + 1
        i += 1

    def skip_ws(p):
        while p < b and (text[p].isspace() or not mask[p]):
            # only skip comments, not literals: literals are non-code too, so check comment starts
            if not mask[p] and not (text.startswith('//', p) or text.startswith('/*', p) or _in_comment(text, mask, p)):
                break
            p += 1
        return p

    p = skip_ws(last)
    while p < b:
        m = re.match(r'(if|match|for|while|loop|unsafe)\b|\{', text[p:])
        if not m:
            break
        # find the end of this block-like expression (including else chains)
        q = p
        while True:
            ob = rp.next_open_brace(text, mask, q, b)
            if ob < 0:
                return None
            cb = rp.match_close(text, mask, ob)
            nxt = skip_ws(cb + 1)
            if text.startswith('else', nxt):
                q = nxt + 4
                continue
            break
        if nxt >= b:
            break          # the block expression IS the tail
        if text[nxt] in '.?' :
            break          # method call on the block: part of the tail expression
        p = nxt
    e = b
    while e > p and (text[e - 1].isspace()):
        e -= 1
    if e <= p:
        return None
    return p, e


def _in_comment(text, mask, p):
    # non-code byte that is not part of a string/char literal: walk back to the start of the non-code run
    s = p
    while s > 0 and not mask[s - 1]:
        s -= 1
    return text.startswith('//', s) or text.startswith('/*', s)


def _tail(self, ghost, name='r__'):
    """desugaring 5: the tail expression `E` of the body => `let r__ = E; <ghost> r__`"""
    check_ghost_statements(ghost, self.name)
    sp = self._tail_span()
    if sp is None:
        raise LostAnchor(self.name, 'no tail expression', True)
    s, e = sp
    self._add(s, 'tail_open', 0, 'let %s = ' % name)
    self._add(e, 'tail_close', 0, ';\n        ' + ghost.strip() + '\n        ' + name)
    return self


Item._tail_span = _tail_span
Item.tail = _tail


def _end(self, ghost):
    """ghost statements right before the closing brace of the body (for bodies without a tail expression)"""
    check_ghost_statements(ghost, self.name)
    if self._tail_span() is not None:
        raise LostAnchor(self.name, 'body has a tail expression; use tail()', True)
    self._add(len(self.orig) - 1, 'ins', 0, ghost.strip() + '\n')
    return self


Item.at_end = _end


def _for_loop(self, n, spec, ghost_iter='gi', pat_var='p__'):
    """n-th loop must be `for PAT in EXPR {`.  Names the ghost iterator (`for x in gi: EXPR`), attaches the invariant, and -- desugaring 1 for
    loop bindings -- replaces an array pattern `[a, b]` by a variable and `let a = p__[0]; let b = p__[1];` at the start of the body."""
    if not SPEC_CLAUSE.match(spec):
        raise NotGhost('%s: loop spec must start with a clause keyword' % self.name)
    rx = re.compile(r'\b(while|for|loop)\b')
    pos = self.body_open + 1
    found = None
    for _ in range(n):
        m = rp.find_code_re(self.orig, self.mask, rx, pos)
        if not m:
            raise LostAnchor(self.name, 'loop #%d not found' % n, True)
        found = m
        pos = m.end()
    if found.group(1) != 'for':
        raise LostAnchor(self.name, 'loop #%d is not a for loop' % n, True)
    b = rp.next_open_brace(self.orig, self.mask, found.end())
    head = self.orig[found.end():b]
    mm = re.match(r'(\s*)(\[[^\]]*\]|\([\w\s,]*\)|\w+)(\s+in\s+)', head)
    if not mm:
        raise LostAnchor(self.name, 'for loop #%d: cannot parse binding' % n, True)
    pat = mm.group(2)
    pstart = found.end() + mm.start(2)
    in_end = found.end() + mm.end(3)
    lets = ''
    if pat.startswith('['):
        names = [x.strip() for x in pat[1:-1].split(',') if x.strip()]
        self._add(pstart, 'pat', len(pat), pat_var)
        lets = ' '.join('let %s = %s[%d];' % (nm, pat_var, k) for k, nm in enumerate(names) if nm != '_')
    elif pat.startswith('('):
        # tuple pattern: `for (k, v) in E {` => `for p__ in gi: E { let (k, v) = p__;`
        self._add(pstart, 'pat', len(pat), pat_var)
        lets = 'let %s = %s;' % (pat, pat_var)
    self._add(in_end, 'ins', 0, ghost_iter + ': ')
    self._add(b, 'ins', 0, '\n            ' + spec.strip() + '\n        ')
    if lets:
        self._add(b + 1, 'patlet', 0, ' ' + lets)
    return self


Item.for_loop = _for_loop


def _loop_brace(self, n):
    rx = re.compile(r'\b(while|for|loop)\b')
    pos = self.body_open + 1
    found = None
    for _ in range(n):
        m = rp.find_code_re(self.orig, self.mask, rx, pos)
        if not m:
            raise LostAnchor(self.name, 'loop #%d not found' % n, True)
        found = m
        pos = m.end()
    b = rp.next_open_brace(self.orig, self.mask, found.end())
    if b < 0:
        raise LostAnchor(self.name, 'loop #%d has no body' % n, True)
    return b


def _loop_body_start(self, n, ghost):
    """ghost statements at the start of the body of the n-th loop (after the pattern lets of for_loop, if called after it)"""
    check_ghost_statements(ghost, self.name)
    b = _loop_brace(self, n)
    self._add(b + 1, 'ins', 0, '\n            ' + ghost.strip())
    return self


def _loop_body_end(self, n, ghost):
    """ghost statements right before the closing brace of the body of the n-th loop"""
    check_ghost_statements(ghost, self.name)
    b = _loop_brace(self, n)
    e = rp.match_close(self.orig, self.mask, b)
    self._add(e, 'ins', 0, ghost.strip() + '\n        ')
    return self


def _let_array_pattern(self, occ, var='p__'):
    """desugaring 1 for `let` bindings: the occ-th `let [a, b] = E;` of the item => `let p__ = E; let a = p__[0]; let b = p__[1];`"""
    rx = re.compile(r'\blet\s+(\[[\w\s,]*\])\s*=')
    pos = self.body_open + 1
    m = None
    for _ in range(occ):
        m = rp.find_code_re(self.orig, self.mask, rx, pos)
        if not m:
            raise LostAnchor(self.name, '`let [..] =` #%d not found' % occ, True)
        pos = m.end()
    pat = m.group(1)
    names = [x.strip() for x in pat[1:-1].split(',') if x.strip()]
    # end of the statement: the next `;` at nesting depth 0
    depth = 0
    k = m.end()
    while True:
        if self.mask[k]:
            ch = self.orig[k]
            if ch in '([{':
                depth += 1
            elif ch in ')]}':
                depth -= 1
            elif ch == ';' and depth == 0:
                break
        k += 1
    self._add(m.start(1), 'pat', len(pat), var)
    self._add(k + 1, 'patlet', 0, ' ' + ' '.join('let %s = %s[%d];' % (nm, var, i) for i, nm in enumerate(names) if nm != '_'))
    return self


Item.let_array_pattern = _let_array_pattern
Item.loop_body_start = _loop_body_start
Item.loop_body_end = _loop_body_end
