// Shim of the `eqlog_eqlog` crate for the bounded check of flat_eqlog/{ast,semi_naive,sort}.rs: only the id
// newtypes those files mention and an `Eqlog` whose methods are unreachable from to_semi_naive / sort_premise.
macro_rules! id { ($($n:ident),*) => { $(#[derive(Copy, Clone, PartialEq, Eq, Debug, Hash, PartialOrd, Ord)] pub struct $n(pub u32);)* } }
id!(Rel, Type, Func, TypeList, SymbolScope);
pub struct Eqlog;
impl Eqlog {
    pub fn arity(&self, _: Rel) -> Option<TypeList> { unreachable!() }
    pub fn flat_domain(&self, _: Func) -> Option<TypeList> { unreachable!() }
    pub fn rel_definition_symbol_scope(&self, _: Rel) -> Option<SymbolScope> { unreachable!() }
    pub fn symbol_scope_model(&self, _: SymbolScope) -> Option<Type> { unreachable!() }
}
