// C16 (bounded): executable contracts of to_semi_naive / sort_premise, run on the REAL files
// eqlog/src/flat_eqlog/{ast,semi_naive,sort}.rs and eqlog/src/unification.rs (textually included).
#![allow(dead_code, unused_imports)]
mod unification { include!(concat!(env!("EQLOG_REPO"), "/eqlog/src/unification.rs")); }
mod eqlog_util { use eqlog_eqlog::*; pub fn type_list_vec(_: TypeList, _: &Eqlog) -> Vec<Type> { unreachable!() } }
mod flat_eqlog {
    pub mod ast { include!(concat!(env!("EQLOG_REPO"), "/eqlog/src/flat_eqlog/ast.rs")); }
    pub mod semi_naive { include!(concat!(env!("EQLOG_REPO"), "/eqlog/src/flat_eqlog/semi_naive.rs")); }
    pub mod sort { include!(concat!(env!("EQLOG_REPO"), "/eqlog/src/flat_eqlog/sort.rs")); }
    pub use ast::*; pub use semi_naive::*; pub use sort::*;
}
use eqlog_eqlog::*;
use flat_eqlog::*;
use std::sync::Arc;

fn var(n: &str) -> FlatVar { FlatVar { name: Arc::from(n), typ: Type(0) } }
fn pool() -> Vec<(FlatInRel, Vec<FlatVar>)> {
    let (x, y, z) = (var("x"), var("y"), var("z"));
    vec![
        (FlatInRel::EqlogRel(Rel(0)), vec![x.clone(), y.clone()]),
        (FlatInRel::EqlogRel(Rel(0)), vec![y.clone(), x.clone()]),
        (FlatInRel::EqlogRelWithDiagonals { rel: Rel(0), equalities: Arc::from(vec![0usize, 0]) }, vec![x.clone()]),
        (FlatInRel::EqlogRel(Rel(1)), vec![x.clone()]),
        (FlatInRel::EqlogRel(Rel(1)), vec![y.clone()]),
        (FlatInRel::EqlogRel(Rel(2)), vec![x.clone(), y.clone(), z.clone()]),
        (FlatInRel::EqlogRel(Rel(2)), vec![z.clone(), y.clone(), x.clone()]),
        (FlatInRel::TypeSet(Type(0)), vec![z.clone()]),
    ]
}
fn mk_rule(idx: &[usize]) -> FlatRule {
    let p = pool();
    FlatRule { name: "r".into(), premise: idx.iter().map(|&i| FlatIfStmt { rel: p[i].0.clone(), args: p[i].1.clone(), age: QueryAge::All }).collect(),
        conclusion: vec![FlatThenStmt { rel: FlatOutRel::EqlogRel(Rel(3)), args: vec![var("x")] }] }
}
fn accepts(age: QueryAge, is_new: bool) -> bool { match age { QueryAge::All => true, QueryAge::New => is_new, QueryAge::Old => !is_new } }

fn check(idx: &[usize]) -> Result<(), String> {
    let rule = mk_rule(idx);
    let n = rule.premise.len();
    let subs = to_semi_naive(&rule);
    if n == 0 { if subs.len() != 1 || subs[0] != rule { return Err("to_semi_naive: a rule without premise must be returned unchanged -- empty".into()); } return Ok(()); }
    if subs.len() != n { return Err(format!("to_semi_naive: {} sub-rules for {} premise atoms -- count", subs.len(), n)); }
    for (i, s) in subs.iter().enumerate() {
        if s.conclusion != rule.conclusion { return Err(format!("to_semi_naive: sub-rule {} has a different conclusion -- family", i)); }
        if s.premise.len() != n { return Err(format!("to_semi_naive: sub-rule {} has {} atoms -- family", i, s.premise.len())); }
        for j in 0..n {
            if s.premise[j].rel != rule.premise[j].rel || s.premise[j].args != rule.premise[j].args { return Err(format!("to_semi_naive: sub-rule {} atom {} differs from the rule's atom -- family", i, j)); }
            let want = if j < i { QueryAge::All } else if j == i { QueryAge::New } else { QueryAge::Old };
            if s.premise[j].age != want { return Err(format!("to_semi_naive: sub-rule {} atom {} has age {:?}, contract {:?} -- age", i, j, s.premise[j].age, want)); }
        }
    }
    // sort_premise keeps each atom with its age
    let mut sorted = subs.clone();
    for (i, s) in sorted.iter_mut().enumerate() {
        sort_premise(s);
        let mut a: Vec<FlatIfStmt> = s.premise.clone(); let mut b: Vec<FlatIfStmt> = subs[i].premise.clone(); a.sort(); b.sort();
        if a != b { return Err(format!("sort_premise: premise of sub-rule {} is not a permutation of (rel, args, age) triples -- permutation", i)); }
        if s.conclusion != subs[i].conclusion { return Err("sort_premise: conclusion changed -- permutation".into()); }
    }
    // the property itself on the emitted family: for every labelling of the matched tuples as new/old (identical atoms match the
    // same tuple, hence carry the same label) exactly one sorted sub-rule accepts the match if some tuple is new, none otherwise
    let distinct: Vec<(FlatInRel, Vec<FlatVar>)> = { let mut v: Vec<_> = rule.premise.iter().map(|s| (s.rel.clone(), s.args.clone())).collect(); v.sort(); v.dedup(); v };
    for lab in 0u32..(1 << distinct.len()) {
        let is_new = |s: &FlatIfStmt| -> bool { let k = distinct.iter().position(|d| d.0 == s.rel && d.1 == s.args).unwrap(); lab >> k & 1 == 1 };
        let cnt = sorted.iter().filter(|s| s.premise.iter().all(|a| accepts(a.age, is_new(a)))).count();
        let want = if lab != 0 { 1 } else { 0 };
        if cnt != want { return Err(format!("semi-naive family: labelling {:b} of the matched tuples is enumerated by {} sub-rules, contract {} -- partition", lab, cnt, want)); }
    }
    Ok(())
}

fn fmt(idx: &[usize]) -> String { format!("sn:{}", idx.iter().map(|i| i.to_string()).collect::<Vec<_>>().join(",")) }

fn main() {
    std::panic::set_hook(Box::new(|_| {}));
    let args: Vec<String> = std::env::args().collect();
    if args.len() >= 3 && args[1] == "--replay" {
        let s = args[2].strip_prefix("sn:").unwrap_or(&args[2]);
        let idx: Vec<usize> = s.split(',').filter(|x| !x.is_empty()).map(|x| x.parse().unwrap()).collect();
        match std::panic::catch_unwind(|| check(&idx)) {
            Ok(Ok(())) => println!("{{\"replay\":\"pass\"}}"),
            Ok(Err(e)) => { println!("{{\"replay\":\"fail\",\"step\":0,\"what\":{:?}}}", e); std::process::exit(1); }
            Err(_) => { println!("{{\"replay\":\"fail\",\"step\":0,\"what\":\"panic\"}}"); std::process::exit(1); }
        }
        return;
    }
    let max_len: usize = args.get(1).and_then(|s| s.parse().ok()).unwrap_or(4);
    let np = pool().len();
    let (mut evals, mut nontrivial) = (0u64, 0u64);
    let mut fails: Vec<(String, String)> = vec![];
    let mut samples: Vec<String> = vec![];
    for len in 0..=max_len {
        let mut idx = vec![0usize; len];
        'a: loop {
            evals += 1;
            let mut d = idx.clone(); d.sort(); d.dedup();
            if len >= 2 { nontrivial += 1; }
            let r = std::panic::catch_unwind(|| check(&idx)).unwrap_or_else(|_| Err("to_semi_naive: panic -- panic".into()));
            if let Err(e) = r { let class = e.split(" -- ").nth(1).unwrap_or("").to_string(); if !fails.iter().any(|f| f.1.split(" -- ").nth(1).unwrap_or("") == class) { fails.push((fmt(&idx), e)); } }
            if samples.len() < 3 && len >= 3 && evals % 1009 == 0 { samples.push(fmt(&idx)); }
            let mut p = 0; loop { if p == len { break 'a; } idx[p] += 1; if idx[p] < np { break; } idx[p] = 0; p += 1; }
            if len == 0 { break; }
        }
    }
    let fj: Vec<String> = fails.iter().map(|(i, e)| format!("{{\"input\":{:?},\"step\":0,\"what\":{:?},\"function\":{:?},\"class\":{:?}}}", i, e, e.split(':').next().unwrap_or(""), e.split(" -- ").nth(1).unwrap_or(""))).collect();
    println!("{{\"evaluations\":{},\"distinct_nontrivial\":{},\"samples\":{:?},\"fails\":[{}],\"bound\":\"all premises of length <= {} over a pool of {} atoms (3 relations incl. a diagonal copy, a type set, repeated atoms and repeated variables); for each, all labellings of the distinct atoms as new/old\",\"exhaustive\":true}}",
        evals, nontrivial, samples, fj.join(","), max_len, np);
    if !fails.is_empty() { std::process::exit(1); }
}
