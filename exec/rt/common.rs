use std::collections::BTreeSet;

pub struct Fail { pub input: String, pub step: usize, pub what: String, pub function: String, pub class: String }

pub struct Report {
    pub evaluations: u64,
    pub nontrivial: BTreeSet<u64>,     // hashes of distinct non-trivial cases
    pub nontrivial_count: u64,
    pub samples: Vec<String>,
    pub fails: Vec<Fail>,
    pub bound: String,
    pub exhaustive: bool,
}

fn esc(s: &str) -> String { format!("{:?}", s) }

impl Report {
    pub fn new() -> Self { Report { evaluations: 0, nontrivial: BTreeSet::new(), nontrivial_count: 0, samples: vec![], fails: vec![], bound: String::new(), exhaustive: true } }
    pub fn fail(&mut self, input: String, step: usize, what: String) {
        // one failure per (function, class) is enough; keep the first (shortest found) input
        let function = what.split(|c: char| c == '(' || c == ':' || c == ' ').next().unwrap_or("").to_string();
        let class = what.split(" -- ").nth(1).unwrap_or("").to_string();
        if self.fails.iter().any(|f| f.function == function && f.class == class) { return; }
        self.fails.push(Fail { input, step, what, function, class });
    }
    pub fn to_json(&self) -> String {
        let fails: Vec<String> = self.fails.iter().map(|f| format!("{{\"input\":{},\"step\":{},\"what\":{},\"function\":{},\"class\":{}}}",
            esc(&f.input), f.step, esc(&f.what), esc(&f.function), esc(&f.class))).collect();
        let samples: Vec<String> = self.samples.iter().map(|s| esc(s)).collect();
        format!("{{\"evaluations\":{},\"distinct_nontrivial\":{},\"samples\":[{}],\"fails\":[{}],\"bound\":{},\"exhaustive\":{}}}",
            self.evaluations, self.nontrivial_count, samples.join(","), fails.join(","), esc(&self.bound), self.exhaustive)
    }
}

pub struct Rng(pub u64);
impl Rng {
    pub fn new(seed: u64) -> Self { Rng(seed.wrapping_mul(0x9E3779B97F4A7C15) ^ 0xD1B54A32D192ED03) }
    pub fn next(&mut self) -> u64 { let mut x = self.0; x ^= x << 13; x ^= x >> 7; x ^= x << 17; self.0 = x; x }
    pub fn below(&mut self, n: u64) -> u64 { self.next() % n }
}

pub fn catch<T>(f: impl FnOnce() -> T) -> Result<T, String> {
    std::panic::catch_unwind(std::panic::AssertUnwindSafe(f)).map_err(|e| {
        if let Some(s) = e.downcast_ref::<String>() { s.clone() } else if let Some(s) = e.downcast_ref::<&str>() { s.to_string() } else { "panic".to_string() }
    })
}
