// Introspection of the ordered map, compiled INSIDE the real module `wbtree::map` (textually appended by
// the harness; nothing in /repo changes).  Executable form of the representation invariant `wf` of DESIGN §4.
pub mod probe {
    use super::*;

    pub struct Shape { pub height: usize, pub size: usize }

    fn walk<V: Clone>(t: &Option<Rc<Node<V>>>, lo: i64, hi: i64) -> Result<Shape, String> {
        match t {
            None => Ok(Shape { height: 0, size: 0 }),
            Some(rc) => match rc.as_ref() {
                Node::Mapping(_) => Err("mapping node in a map built without `mapped`".into()),
                Node::Data(d) => {
                    let k = d.key as i64;
                    if !(lo < k && k < hi) { return Err(format!("order: key {} outside ({}, {}) -- bst", d.key, lo, hi)); }
                    let l = walk(&d.left, lo, k)?;
                    let r = walk(&d.right, k, hi)?;
                    if d.size != 1 + l.size + r.size { return Err(format!("cached size {} at key {} but subtree has {} nodes -- size", d.size, d.key, 1 + l.size + r.size)); }
                    let (lw, rw) = (l.size + 1, r.size + 1);
                    if l.size + r.size >= 2 && (rw > 3 * lw || lw > 3 * rw) {
                        return Err(format!("weight balance violated at key {}: left {} right {} nodes -- balance", d.key, l.size, r.size));
                    }
                    Ok(Shape { height: 1 + l.height.max(r.height), size: 1 + l.size + r.size })
                }
            },
        }
    }

    /// Ok((height, size)) iff order, cached sizes, weight balance (DELTA = 3) and `len` are all exact.
    pub fn check<V: Clone>(m: &WBTreeMap<V>) -> Result<(usize, usize), String> {
        let s = walk(&m.root, -1, 1 << 32)?;
        if m.len != s.size { return Err(format!("len field is {} but the tree has {} nodes -- len", m.len, s.size)); }
        // height bound implied by weight balance: size + 1 >= (4/3)^(height)
        let mut bound = 1.0f64; for _ in 0..s.height { bound *= 4.0 / 3.0; }
        if (s.size as f64) + 1.0 < bound - 1e-9 { return Err(format!("height {} not logarithmic in size {} -- height", s.height, s.size)); }
        Ok((s.height, s.size))
    }

    /// number of nodes shared (pointer-equal) between two maps; used to make sure clones really share
    pub fn shares_root<V: Clone>(a: &WBTreeMap<V>, b: &WBTreeMap<V>) -> bool {
        match (&a.root, &b.root) { (Some(x), Some(y)) => Rc::ptr_eq(x, y), _ => false }
    }
}
