// C14: the ordered map against BTreeMap on families of clones.
use crate::common::*;
use crate::wbtree::map::{probe, Entry, WBTreeMap};
use crate::wbtree::set::WBTreeSet;
use std::collections::BTreeMap;

pub const SLOTS: usize = 3;

#[derive(Clone, Debug, PartialEq)]
pub enum Op {
    Ins(usize, u32, u64), Rem(usize, u32), Get(usize, u32), GetMut(usize, u32, u64),
    EntIns(usize, u32, u64), EntWith(usize, u32, u64), EntRem(usize, u32), EntMut(usize, u32, u64),
    Clear(usize), Clone(usize, usize), Union(usize, usize, usize), Diff(usize, usize, usize), IterMut(usize, u64),
    SetOps(usize, usize),
}

pub fn fmt_op(o: &Op) -> String {
    match o {
        Op::Ins(s, k, v) => format!("ins {} {} {}", s, k, v), Op::Rem(s, k) => format!("rem {} {}", s, k),
        Op::Get(s, k) => format!("get {} {}", s, k), Op::GetMut(s, k, d) => format!("getmut {} {} {}", s, k, d),
        Op::EntIns(s, k, v) => format!("entins {} {} {}", s, k, v), Op::EntWith(s, k, v) => format!("entwith {} {} {}", s, k, v),
        Op::EntRem(s, k) => format!("entrem {} {}", s, k), Op::EntMut(s, k, d) => format!("entmut {} {} {}", s, k, d),
        Op::Clear(s) => format!("clear {}", s), Op::Clone(s, t) => format!("clone {} {}", s, t),
        Op::Union(s, t, u) => format!("union {} {} {}", s, t, u), Op::Diff(s, t, u) => format!("diff {} {} {}", s, t, u),
        Op::IterMut(s, d) => format!("itermut {} {}", s, d), Op::SetOps(s, t) => format!("setops {} {}", s, t),
    }
}
pub fn fmt_seq(ops: &[Op]) -> String { format!("wb:{}", ops.iter().map(fmt_op).collect::<Vec<_>>().join(";")) }

pub fn parse_op(s: &str) -> Op {
    let t: Vec<&str> = s.split_whitespace().collect();
    let n = |i: usize| -> u64 { t[i].parse().unwrap() };
    match t[0] {
        "ins" => Op::Ins(n(1) as usize, n(2) as u32, n(3)), "rem" => Op::Rem(n(1) as usize, n(2) as u32),
        "get" => Op::Get(n(1) as usize, n(2) as u32), "getmut" => Op::GetMut(n(1) as usize, n(2) as u32, n(3)),
        "entins" => Op::EntIns(n(1) as usize, n(2) as u32, n(3)), "entwith" => Op::EntWith(n(1) as usize, n(2) as u32, n(3)),
        "entrem" => Op::EntRem(n(1) as usize, n(2) as u32), "entmut" => Op::EntMut(n(1) as usize, n(2) as u32, n(3)),
        "clear" => Op::Clear(n(1) as usize), "clone" => Op::Clone(n(1) as usize, n(2) as usize),
        "union" => Op::Union(n(1) as usize, n(2) as usize, n(3) as usize), "diff" => Op::Diff(n(1) as usize, n(2) as usize, n(3) as usize),
        "itermut" => Op::IterMut(n(1) as usize, n(2)), "setops" => Op::SetOps(n(1) as usize, n(2) as usize),
        x => panic!("bad op {}", x),
    }
}

pub struct Fam { pub m: Vec<WBTreeMap<u64>>, pub r: Vec<BTreeMap<u32, u64>> }
impl Fam { pub fn new() -> Self { Fam { m: (0..SLOTS).map(|_| WBTreeMap::new()).collect(), r: (0..SLOTS).map(|_| BTreeMap::new()).collect() } } }

fn merge_fn(k: &u32, l: u64, r: u64) -> u64 { (l % 1000) * 1000 + (r % 1000) + (*k as u64) * 1_000_000 }
fn diff_fn(k: &u32, l: u64, r: u64) -> Option<u64> { if (l + r + *k as u64) % 2 == 0 { None } else { Some((l % 1000) * 1000 + (r % 1000)) } }

fn check_all(f: &Fam) -> Result<(), String> {
    for s in 0..SLOTS {
        let (m, r) = (&f.m[s], &f.r[s]);
        probe::check(m).map_err(|e| format!("invariant(slot {}): {}", s, e))?;
        if m.len() != r.len() { return Err(format!("len(slot {}): returns {} but the reference map has {} entries -- len", s, m.len(), r.len())); }
        if m.is_empty() != r.is_empty() { return Err(format!("is_empty(slot {}): wrong -- is_empty", s)); }
        let got: Vec<(u32, u64)> = m.iter().map(|(k, v)| (k, *v)).collect();
        let want: Vec<(u32, u64)> = r.iter().map(|(k, v)| (*k, *v)).collect();
        if got != want { return Err(format!("iter(slot {}): yields {:?} but the reference map is {:?} -- contents", s, got, want)); }
    }
    Ok(())
}

pub fn step(f: &mut Fam, op: &Op) -> Result<(), String> {
    match *op {
        Op::Ins(s, k, v) => { let a = f.m[s].insert(k, v); let b = f.r[s].insert(k, v); if a != b { return Err(format!("insert({}): returned {:?}, reference {:?} -- result", k, a, b)); } }
        Op::Rem(s, k) => { let a = f.m[s].remove(&k); let b = f.r[s].remove(&k); if a != b { return Err(format!("remove({}): returned {:?}, reference {:?} -- result", k, a, b)); } }
        Op::Get(s, k) => { let a = f.m[s].get(&k).cloned(); let b = f.r[s].get(&k).cloned(); if a != b { return Err(format!("get({}): returned {:?}, reference {:?} -- result", k, a, b)); }
            if f.m[s].contains_key(&k) != b.is_some() { return Err(format!("contains_key({}): wrong -- result", k)); } }
        Op::GetMut(s, k, d) => { let a = f.m[s].get_mut(&k).map(|v| { *v += d; *v }); let b = f.r[s].get_mut(&k).map(|v| { *v += d; *v });
            if a != b { return Err(format!("get_mut({}): returned {:?}, reference {:?} -- result", k, a, b)); } }
        Op::EntIns(s, k, v) => { let a = *f.m[s].entry(k).or_insert(v); let b = *f.r[s].entry(k).or_insert(v); if a != b { return Err(format!("entry({}).or_insert: {:?} vs {:?} -- result", k, a, b)); } }
        Op::EntWith(s, k, v) => { let a = *f.m[s].entry(k).or_insert_with(|| v); let b = *f.r[s].entry(k).or_insert_with(|| v); if a != b { return Err(format!("entry({}).or_insert_with: {:?} vs {:?} -- result", k, a, b)); } }
        Op::EntRem(s, k) => { let a = match f.m[s].entry(k) { Entry::Occupied(o) => Some(o.remove()), Entry::Vacant(_) => None }; let b = f.r[s].remove(&k);
            if a != b { return Err(format!("entry({}) occupied/remove: {:?} vs {:?} -- result", k, a, b)); } }
        Op::EntMut(s, k, d) => { let a = match f.m[s].entry(k) { Entry::Occupied(mut o) => { *o.get_mut() += d; let p = o.into_mut(); *p += 1; Some(*p) }, Entry::Vacant(_) => None };
            let b = f.r[s].get_mut(&k).map(|v| { *v += d + 1; *v }); if a != b { return Err(format!("entry({}) occupied get_mut/into_mut: {:?} vs {:?} -- result", k, a, b)); } }
        Op::Clear(s) => { f.m[s].clear(); f.r[s].clear(); }
        Op::Clone(s, t) => { if s != t { let c = f.m[s].clone(); f.m[t] = c; let c = f.r[s].clone(); f.r[t] = c; } }
        Op::Union(s, t, u) => {
            let mut calls: Vec<(u32, u64, u64)> = vec![];
            let res = f.m[s].union(&f.m[t], |k, l, r| { calls.push((*k, l, r)); merge_fn(k, l, r) });
            let mut want = f.r[s].clone();
            for (k, rv) in f.r[t].iter() { match want.get(k).cloned() { Some(lv) => { want.insert(*k, merge_fn(k, lv, *rv)); } None => { want.insert(*k, *rv); } } }
            for (k, l, r) in calls.iter() {
                if f.r[s].get(k) != Some(l) || f.r[t].get(k) != Some(r) { return Err(format!("union: merge callback got ({}, {}, {}) but left has {:?} and right has {:?} -- callback-order", k, l, r, f.r[s].get(k), f.r[t].get(k))); }
            }
            let common = f.r[s].keys().filter(|k| f.r[t].contains_key(k)).count();
            if calls.len() != common { return Err(format!("union: merge called {} times for {} common keys -- callback-count", calls.len(), common)); }
            f.m[u] = res; f.r[u] = want;
        }
        Op::Diff(s, t, u) => {
            let mut calls: Vec<(u32, u64, u64)> = vec![];
            let res = f.m[s].difference(&f.m[t], |k, l, r| { calls.push((*k, l, r)); diff_fn(k, l, r) });
            let mut want = BTreeMap::new();
            for (k, lv) in f.r[s].iter() { match f.r[t].get(k) { Some(rv) => { if let Some(x) = diff_fn(k, *lv, *rv) { want.insert(*k, x); } } None => { want.insert(*k, *lv); } } }
            for (k, l, r) in calls.iter() {
                if f.r[s].get(k) != Some(l) || f.r[t].get(k) != Some(r) { return Err(format!("difference: callback got ({}, {}, {}) but left has {:?} and right has {:?} -- callback-order", k, l, r, f.r[s].get(k), f.r[t].get(k))); }
            }
            let common = f.r[s].keys().filter(|k| f.r[t].contains_key(k)).count();
            if calls.len() != common { return Err(format!("difference: callback called {} times for {} common keys -- callback-count", calls.len(), common)); }
            f.m[u] = res; f.r[u] = want;
        }
        Op::IterMut(s, d) => {
            let mut seen = vec![];
            for (i, (k, v)) in f.m[s].iter_mut().enumerate() { seen.push(k); if i % 2 == 0 { *v += d; } }
            let keys: Vec<u32> = f.r[s].keys().cloned().collect();
            if seen != keys { return Err(format!("iter_mut: visited {:?}, reference keys {:?} -- contents", seen, keys)); }
            for (i, (_, v)) in f.r[s].iter_mut().enumerate() { if i % 2 == 0 { *v += d; } }
        }
        Op::SetOps(s, t) => {
            // WBTreeSet built from the key sets of two slots
            let (mut a, mut b) = (WBTreeSet::new(), WBTreeSet::new());
            for k in f.r[s].keys() { if !a.insert(*k) { return Err("WBTreeSet::insert: fresh value reported present -- result".into()); } }
            for k in f.r[t].keys() { b.insert(*k); }
            let u: Vec<u32> = a.union(&b).iter().collect();
            let d: Vec<u32> = a.difference(&b).iter().collect();
            let wu: Vec<u32> = f.r[s].keys().chain(f.r[t].keys()).cloned().collect::<std::collections::BTreeSet<u32>>().into_iter().collect();
            let wd: Vec<u32> = f.r[s].keys().filter(|k| !f.r[t].contains_key(k)).cloned().collect();
            if u != wu { return Err(format!("WBTreeSet::union: {:?} vs {:?} -- contents", u, wu)); }
            if d != wd { return Err(format!("WBTreeSet::difference: {:?} vs {:?} -- contents", d, wd)); }
            if a.len() != f.r[s].len() || a.is_empty() != f.r[s].is_empty() { return Err("WBTreeSet::len: wrong -- len".into()); }
            for k in f.r[s].keys() { if !a.contains(k) { return Err("WBTreeSet::contains: wrong -- result".into()); } }
            if let Some(k) = f.r[s].keys().next() { if !a.remove(k) || a.contains(k) || a.len() + 1 != f.r[s].len() { return Err("WBTreeSet::remove: wrong -- result".into()); } }
        }
    }
    check_all(f)
}

pub fn run_seq(ops: &[Op]) -> Result<(), (usize, String)> {
    let mut f = Fam::new();
    for (i, op) in ops.iter().enumerate() {
        match catch(|| step(&mut f, op)) { Ok(Ok(())) => {}, Ok(Err(e)) => return Err((i, e)), Err(p) => return Err((i, format!("{}: panic: {} -- panic", fmt_op(op).split(' ').next().unwrap(), p))) }
    }
    Ok(())
}

pub fn replay(seq: &str) -> Result<(), (usize, String)> {
    let ops: Vec<Op> = seq.split(';').filter(|s| !s.trim().is_empty()).map(parse_op).collect();
    run_seq(&ops)
}

fn try_seq(rep: &mut Report, ops: &[Op], nontrivial: bool) {
    rep.evaluations += 1;
    if nontrivial { rep.nontrivial_count += 1; }
    if let Err((i, e)) = run_seq(ops) { rep.fail(fmt_seq(&ops[..=i]), i, e); }
}

fn permutations(n: usize) -> Vec<Vec<u32>> {
    fn rec(cur: &mut Vec<u32>, used: &mut Vec<bool>, n: usize, out: &mut Vec<Vec<u32>>) {
        if cur.len() == n { out.push(cur.clone()); return; }
        for i in 0..n { if !used[i] { used[i] = true; cur.push(i as u32); rec(cur, used, n, out); cur.pop(); used[i] = false; } }
    }
    let mut out = vec![]; rec(&mut vec![], &mut vec![false; n], n, &mut out); out
}

pub fn sweep(thorough: bool, seed: u64) -> Report {
    let mut rep = Report::new();
    // (A) exhaustive: every sequence of L operations over K keys and 2 slots
    let (k_a, l_a) = if thorough { (3u32, 5usize) } else { (3u32, 4usize) };
    let mut alpha: Vec<Op> = vec![];
    for k in 0..k_a { alpha.push(Op::Ins(0, k, 1 + k as u64)); alpha.push(Op::Rem(0, k)); alpha.push(Op::GetMut(0, k, 7)); alpha.push(Op::EntIns(0, k, 50)); alpha.push(Op::EntRem(0, k)); alpha.push(Op::EntMut(0, k, 3)); alpha.push(Op::Ins(1, k, 20 + k as u64)); }
    alpha.push(Op::Clone(0, 1)); alpha.push(Op::Clone(1, 0)); alpha.push(Op::Clear(0)); alpha.push(Op::IterMut(0, 5));
    alpha.push(Op::Union(0, 1, 2)); alpha.push(Op::Diff(0, 1, 2)); alpha.push(Op::Union(1, 0, 0)); alpha.push(Op::Diff(0, 1, 0)); alpha.push(Op::EntWith(1, 1, 9)); alpha.push(Op::SetOps(0, 1));
    let mut idx = vec![0usize; l_a];
    'a: loop {
        let ops: Vec<Op> = idx.iter().map(|&i| alpha[i].clone()).collect();
        let muts = ops.iter().filter(|o| !matches!(o, Op::Get(..) | Op::SetOps(..))).count();
        try_seq(&mut rep, &ops, muts >= 3);
        if rep.samples.len() < 2 && rep.evaluations % 100_003 == 0 { rep.samples.push(fmt_seq(&ops)); }
        let mut p = 0; loop { if p == l_a { break 'a; } idx[p] += 1; if idx[p] < alpha.len() { break; } idx[p] = 0; p += 1; }
    }
    // (B) exhaustive: every insertion order of N keys, then every removal order (rebalancing paths), with a clone taken in between
    let n_b = if thorough { 7 } else { 6 };
    let perms = permutations(n_b);
    for (pi, ins) in perms.iter().enumerate() {
        let mut base: Vec<Op> = ins.iter().map(|k| Op::Ins(0, *k, *k as u64 + 1)).collect();
        base.push(Op::Clone(0, 1));
        // removal orders: all for the quick size would be 720*720; use every removal order for a third of the insertion orders
        let stride = if thorough { 5 } else { 3 };
        if pi % stride != 0 { try_seq(&mut rep, &base, true); continue; }
        for rem in perms.iter() {
            let mut ops = base.clone();
            ops.extend(rem.iter().map(|k| Op::Rem(0, *k)));
            try_seq(&mut rep, &ops, true);
        }
        if rep.samples.len() < 3 && pi == 6 { rep.samples.push(fmt_seq(&base)); }
    }
    // (C) exhaustive: union / difference of every pair of subsets of M keys, operands built in ascending and in descending order
    let m_c = if thorough { 7u32 } else { 6u32 };
    for a in 0u32..(1 << m_c) { for b in 0u32..(1 << m_c) {
        let mut ops = vec![];
        for k in 0..m_c { if a >> k & 1 == 1 { ops.push(Op::Ins(0, k * 3, 1 + k as u64)); } }
        for k in (0..m_c).rev() { if b >> k & 1 == 1 { ops.push(Op::Ins(1, k * 3, 100 + k as u64)); } }
        ops.push(Op::Union(0, 1, 2)); ops.push(Op::Diff(0, 1, 2)); ops.push(Op::Diff(1, 0, 2)); ops.push(Op::SetOps(0, 1));
        try_seq(&mut rep, &ops, a != 0 && b != 0);
    } }
    // (D) seeded random long sequences over a larger key space (large trees, deep rebalancing, big unions)
    let (count, len, keys) = if thorough { (3000u64, 400usize, 64u64) } else { (400u64, 250usize, 48u64) };
    let mut rng = Rng::new(seed + 1);
    for c in 0..count {
        let mut ops = vec![];
        for _ in 0..len {
            let s = rng.below(SLOTS as u64) as usize; let k = rng.below(keys) as u32; let v = rng.below(900);
            ops.push(match rng.below(20) {
                0..=6 => Op::Ins(s, k, v), 7..=9 => Op::Rem(s, k), 10 => Op::GetMut(s, k, v), 11 => Op::EntIns(s, k, v), 12 => Op::EntRem(s, k), 13 => Op::EntMut(s, k, v),
                14 => Op::Clone(s, rng.below(SLOTS as u64) as usize), 15 => Op::Union(s, rng.below(SLOTS as u64) as usize, rng.below(SLOTS as u64) as usize),
                16 => Op::Diff(s, rng.below(SLOTS as u64) as usize, rng.below(SLOTS as u64) as usize), 17 => Op::IterMut(s, v), 18 => Op::Get(s, k),
                _ => if rng.below(10) == 0 { Op::Clear(s) } else { Op::Ins(s, k, v) },
            });
        }
        try_seq(&mut rep, &ops, true);
        if c == 0 { rep.samples.push(fmt_seq(&ops[..12])); }
    }
    rep.exhaustive = false;
    rep.bound = format!("(A) all {}^{} op sequences over {} keys/2 slots; (B) all insertion orders of {} keys x all removal orders (for every {}th insertion order); (C) union/difference of all pairs of subsets of {} keys; (D) {} seeded random sequences of {} ops over {} keys (seed {}) -- A-C exhaustive, D sampled",
        alpha.len(), l_a, k_a, n_b, if thorough { 5 } else { 3 }, m_c, count, len, keys, seed);
    rep
}
