use crate::common::*;
pub fn replay(_seq: &str) -> Result<(), (usize, String)> { Err((0, "ts: not built".into())) }
pub fn sweep(_thorough: bool) -> Report { Report::new() }
