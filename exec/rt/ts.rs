// C18: morphism_toposort on all small multigraphs x all new/old splits (bounded only).
use crate::common::*;
use crate::toposort::{morphism_toposort, MorphismWithSignature};
use crate::{PrefixTree1, PrefixTree2};

/// a case: n objects 0..n, morphism i has id 10+i, dom[i]/cod[i] in {None, Some(obj)}; split bit per table entry
#[derive(Clone, Debug)]
pub struct Case { pub n: u32, pub dom: Vec<Option<u32>>, pub cod: Vec<Option<u32>>, pub split: u64 }

fn fmt_case(c: &Case) -> String {
    let f = |v: &Vec<Option<u32>>| v.iter().map(|x| x.map(|y| y.to_string()).unwrap_or("-".into())).collect::<Vec<_>>().join(",");
    format!("ts:{}|{}|{}|{}", c.n, f(&c.dom), f(&c.cod), c.split)
}
fn parse_case(s: &str) -> Case {
    let p: Vec<&str> = s.split('|').collect();
    let f = |x: &str| -> Vec<Option<u32>> { if x.is_empty() { vec![] } else { x.split(',').map(|y| if y == "-" { None } else { Some(y.parse().unwrap()) }).collect() } };
    Case { n: p[0].parse().unwrap(), dom: f(p[1]), cod: f(p[2]), split: p[3].parse().unwrap() }
}

fn entries(c: &Case) -> usize { c.n as usize + c.dom.iter().filter(|x| x.is_some()).count() + c.cod.iter().filter(|x| x.is_some()).count() }

fn has_cycle(c: &Case) -> bool {
    // DFS over objects along fully defined morphisms
    let n = c.n as usize;
    let mut adj = vec![vec![]; n];
    for i in 0..c.dom.len() { if let (Some(d), Some(k)) = (c.dom[i], c.cod[i]) { adj[d as usize].push(k as usize); } }
    fn dfs(v: usize, adj: &Vec<Vec<usize>>, st: &mut Vec<u8>) -> bool { st[v] = 1; for &w in &adj[v] { if st[w] == 1 || (st[w] == 0 && dfs(w, adj, st)) { return true; } } st[v] = 2; false }
    let mut st = vec![0u8; n];
    for v in 0..n { if st[v] == 0 && dfs(v, &adj, &mut st) { return true; } }
    false
}

/// Ok(sorted multiset of (morph, dom, cod)) or Err
fn run(c: &Case) -> Result<Result<Vec<(u32, u32, u32)>, ()>, String> {
    let (mut dn, mut do_, mut cn, mut co, mut on, mut oo) = (PrefixTree2::new(), PrefixTree2::new(), PrefixTree2::new(), PrefixTree2::new(), PrefixTree1::new(), PrefixTree1::new());
    let mut bit = 0;
    let mut is_new = |b: &mut usize| { let r = c.split >> *b & 1 == 1; *b += 1; r };
    for o in 0..c.n { if is_new(&mut bit) { on.insert([o]); } else { oo.insert([o]); } }
    for (i, d) in c.dom.iter().enumerate() { if let Some(d) = d { if is_new(&mut bit) { dn.insert([*d, 10 + i as u32]); } else { do_.insert([*d, 10 + i as u32]); } } }
    for (i, k) in c.cod.iter().enumerate() { if let Some(k) = k { if is_new(&mut bit) { cn.insert([10 + i as u32, *k]); } else { co.insert([10 + i as u32, *k]); } } }
    let res = catch(|| morphism_toposort(&dn, &do_, &cn, &co, &oo, &on)).map_err(|p| format!("morphism_toposort: panic: {} -- panic", p))?;
    let cyc = has_cycle(c);
    match res {
        Err(_) => { if !cyc { return Err("morphism_toposort: reports a cycle but the fully defined morphisms are acyclic -- spurious-cycle".into()); } Ok(Err(())) }
        Ok(list) => {
            if cyc { return Err("morphism_toposort: returns Ok although the fully defined morphisms contain a directed cycle -- missed-cycle".into()); }
            let mut want: Vec<(u32, u32, u32)> = (0..c.dom.len()).filter_map(|i| match (c.dom[i], c.cod[i]) { (Some(d), Some(k)) => Some((10 + i as u32, d, k)), _ => None }).collect();
            let mut got: Vec<(u32, u32, u32)> = list.iter().map(|m| (m.morph, m.dom, m.cod)).collect();
            for (i, f) in list.iter().enumerate() { for (j, g) in list.iter().enumerate() {
                if f.cod == g.dom && i >= j { return Err(format!("morphism_toposort: morphism {} into object {} does not precede morphism {} out of it -- order", f.morph, f.cod, g.morph)); }
            } }
            want.sort(); got.sort();
            if got != want { return Err(format!("morphism_toposort: returned {:?} but the fully defined morphisms are {:?} -- contents", got, want)); }
            Ok(Ok(got))
        }
    }
}

pub fn replay(seq: &str) -> Result<(), (usize, String)> {
    let c = parse_case(seq);
    let base = run(&Case { split: 0, ..c.clone() }).map_err(|e| (0, e))?;
    let r = run(&c).map_err(|e| (0, e))?;
    if r != base { return Err((0, "morphism_toposort: result depends on the new/old split -- split".into())); }
    Ok(())
}

pub fn sweep(thorough: bool) -> Report {
    let mut rep = Report::new();
    let max_n = 3u32;
    let max_m = if thorough { 4 } else { 3 };
    let mut rng = Rng::new(12345);
    for n in 0..=max_n { for m in 0..=max_m {
        let choices = n + 1;   // None or one of n objects
        let total = (choices as u64).pow(2 * m as u32);
        for code in 0..total {
            let mut x = code; let mut dom = vec![]; let mut cod = vec![];
            for _ in 0..m { let d = (x % choices as u64) as u32; x /= choices as u64; let k = (x % choices as u64) as u32; x /= choices as u64;
                dom.push(if d == 0 { None } else { Some(d - 1) }); cod.push(if k == 0 { None } else { Some(k - 1) }); }
            let mut c = Case { n, dom, cod, split: 0 };
            let e = entries(&c);
            let base = match run(&c) { Ok(b) => Some(b), Err(msg) => { rep.fail(fmt_case(&c), 0, msg); None } };
            rep.evaluations += 1;
            let defined = (0..m as usize).filter(|&i| c.dom[i].is_some() && c.cod[i].is_some()).count();
            if defined >= 2 { rep.nontrivial_count += 1; }
            let all_splits = m <= 3;
            let splits: Vec<u64> = if all_splits { (1..(1u64 << e)).collect() } else { let mut v = vec![(1u64 << e) - 1]; for _ in 0..6 { v.push(rng.below(1u64 << e)); } v };
            for s in splits {
                c.split = s;
                rep.evaluations += 1;
                if defined >= 2 { rep.nontrivial_count += 1; }
                match run(&c) {
                    Err(msg) => rep.fail(fmt_case(&c), 0, msg),
                    Ok(r) => if let Some(b) = &base { if &r != b { rep.fail(fmt_case(&c), 0, "morphism_toposort: Ok/Err or the set of returned morphisms depends on the new/old split -- split".into()); } }
                }
            }
            if rep.samples.len() < 3 && defined >= 2 && code % 97 == 5 { rep.samples.push(fmt_case(&c)); }
        }
    } }
    rep.exhaustive = !thorough;
    rep.bound = format!("all multigraphs with <= {} objects and <= {} morphisms (each with dom/cod undefined or any object) x {} new/old splits of the three tables",
        max_n, max_m, if thorough { "all splits for <= 3 morphisms, all-old/all-new/6 seeded splits for 4 morphisms" } else { "all" });
    rep
}
