// Executable contracts of the eqlog runtime containers, run on the REAL source files (textually
// included below, so private fields are visible to the probe modules).  This is the bounded stand-in for
// the functions Verus cannot take (iterators, `mapped`) and the replay searcher for the proved ones.
// Never counted as proof.
//
//   rt_native wb quick|thorough [seed]      sweep of the ordered map (C14)
//   rt_native pt quick|thorough [seed]      sweep of the prefix trees (C08)
//   rt_native ts quick|thorough             sweep of morphism_toposort (C18)
//   rt_native --replay "<unit>:<op>;<op>;..."
#![allow(dead_code, unused_imports, unused_variables, unused_mut, non_snake_case)]

pub mod wbtree {
    pub mod map {
        include!(concat!(env!("EQLOG_REPO"), "/eqlog-runtime/src/wbtree/map.rs"));
        include!("wb_probe.rs");
    }
    pub mod set {
        include!(concat!(env!("EQLOG_REPO"), "/eqlog-runtime/src/wbtree/set.rs"));
    }
}
pub mod prefix_tree {
    include!(concat!(env!("EQLOG_REPO"), "/eqlog-runtime/src/prefix_tree.rs"));
}
pub mod toposort {
    include!(concat!(env!("EQLOG_REPO"), "/eqlog-runtime/src/toposort.rs"));
}
pub use prefix_tree::{PrefixTree0, PrefixTree1, PrefixTree2, PrefixTree3, PrefixTree4, PrefixTree5, PrefixTree6, PrefixTree7, PrefixTree8, PrefixTree9};

mod common;
mod wb;
mod pt;
mod ts;

fn main() {
    std::panic::set_hook(Box::new(|_| {}));
    let args: Vec<String> = std::env::args().collect();
    if args.len() >= 3 && args[1] == "--replay" {
        let (unit, seq) = args[2].split_once(':').expect("replay input must be <unit>:<ops>");
        let r = match unit { "wb" => wb::replay(seq), "pt" => pt::replay(seq), "ts" => ts::replay(seq), _ => Err((0, "unknown unit".to_string())) };
        match r {
            Ok(()) => println!("{{\"replay\":\"pass\"}}"),
            Err((k, e)) => { println!("{{\"replay\":\"fail\",\"step\":{},\"what\":{:?}}}", k, e); std::process::exit(1); }
        }
        return;
    }
    let unit = args.get(1).map(|s| s.as_str()).unwrap_or("wb");
    let thorough = args.get(2).map(|s| s == "thorough").unwrap_or(false);
    let seed: u64 = args.get(3).and_then(|s| s.parse().ok()).unwrap_or(0);
    let rep = match unit { "wb" => wb::sweep(thorough, seed), "pt" => pt::sweep(thorough, seed), "ts" => ts::sweep(thorough), _ => panic!("unit") };
    println!("{}", rep.to_json());
    if !rep.fails.is_empty() { std::process::exit(1); }
}
