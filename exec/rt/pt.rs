use crate::common::*;
pub fn replay(_seq: &str) -> Result<(), (usize, String)> { Err((0, "pt: not built".into())) }
pub fn sweep(_thorough: bool, _seed: u64) -> Report { Report::new() }
