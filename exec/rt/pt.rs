// C08: the prefix trees (arity 0..9) against BTreeSet<Vec<u32>> on families of clones.
use crate::common::*;
use crate::*;
use std::collections::BTreeSet;

pub trait PT: Clone {
    const N: usize;
    type Child: PT;
    fn new_() -> Self;
    fn insert_(&mut self, t: &[u32]) -> bool;
    fn remove_(&mut self, t: &[u32]) -> bool;
    fn contains_(&self, t: &[u32]) -> bool;
    fn is_empty_(&self) -> bool;
    fn clear_(&mut self);
    fn iter_(&self) -> Vec<Vec<u32>>;
    fn union_(&self, o: &Self) -> Self;
    fn difference_(&self, o: &Self) -> Self;
    fn get_(&self, k: u32) -> Option<Vec<Vec<u32>>>;
    fn ins_restr(&mut self, k: u32, c: &Self::Child);
    fn rem_restr(&mut self, k: u32, c: &Self::Child);
    fn restrictions(&self) -> Vec<(u32, Vec<Vec<u32>>)>;
    fn mapped_(&self, ms: &[Option<PrefixTree2>]) -> Self;
}

impl PT for PrefixTree0 {
    const N: usize = 0;
    type Child = PrefixTree0;
    fn new_() -> Self { PrefixTree0::new() }
    fn insert_(&mut self, _t: &[u32]) -> bool { self.insert([]) }
    fn remove_(&mut self, _t: &[u32]) -> bool { self.remove([]) }
    fn contains_(&self, _t: &[u32]) -> bool { self.contains([]) }
    fn is_empty_(&self) -> bool { self.is_empty() }
    fn clear_(&mut self) { self.clear() }
    fn iter_(&self) -> Vec<Vec<u32>> { self.iter().map(|a| a.to_vec()).collect() }
    fn union_(&self, o: &Self) -> Self { self.union(o) }
    fn difference_(&self, o: &Self) -> Self { self.difference(o) }
    fn get_(&self, _k: u32) -> Option<Vec<Vec<u32>>> { None }
    fn ins_restr(&mut self, _k: u32, _c: &Self::Child) {}
    fn rem_restr(&mut self, _k: u32, _c: &Self::Child) {}
    fn restrictions(&self) -> Vec<(u32, Vec<Vec<u32>>)> { vec![] }
    fn mapped_(&self, _ms: &[Option<PrefixTree2>]) -> Self { self.mapped() }
}

impl PT for PrefixTree1 {
    const N: usize = 1;
    type Child = PrefixTree0;
    fn new_() -> Self { PrefixTree1::new() }
    fn insert_(&mut self, t: &[u32]) -> bool { self.insert([t[0]]) }
    fn remove_(&mut self, t: &[u32]) -> bool { self.remove([t[0]]) }
    fn contains_(&self, t: &[u32]) -> bool { self.contains([t[0]]) }
    fn is_empty_(&self) -> bool { self.is_empty() }
    fn clear_(&mut self) { self.clear() }
    fn iter_(&self) -> Vec<Vec<u32>> { self.iter().map(|a| a.to_vec()).collect() }
    fn union_(&self, o: &Self) -> Self { self.union(o) }
    fn difference_(&self, o: &Self) -> Self { self.difference(o) }
    fn get_(&self, k: u32) -> Option<Vec<Vec<u32>>> { self.get(k).map(|c| c.iter_()) }
    fn ins_restr(&mut self, k: u32, c: &Self::Child) { self.insert_restriction(k, c.clone()) }
    fn rem_restr(&mut self, k: u32, c: &Self::Child) { self.remove_restriction(k, c) }
    fn restrictions(&self) -> Vec<(u32, Vec<Vec<u32>>)> { self.iter_restrictions().map(|(k, c)| (k, c.iter_())).collect() }
    fn mapped_(&self, ms: &[Option<PrefixTree2>]) -> Self { self.mapped(ms[0].clone()) }
}

macro_rules! impl_pt {
    ($T:ident, $C:ident, $n:expr, [$($i:expr),*]) => {
        impl PT for $T {
            const N: usize = $n;
            type Child = $C;
            fn new_() -> Self { $T::new() }
            fn insert_(&mut self, t: &[u32]) -> bool { self.insert([$(t[$i]),*]) }
            fn remove_(&mut self, t: &[u32]) -> bool { self.remove([$(t[$i]),*]) }
            fn contains_(&self, t: &[u32]) -> bool { self.contains([$(t[$i]),*]) }
            fn is_empty_(&self) -> bool { self.is_empty() }
            fn clear_(&mut self) { self.clear() }
            fn iter_(&self) -> Vec<Vec<u32>> { self.iter().map(|a| a.to_vec()).collect() }
            fn union_(&self, o: &Self) -> Self { self.union(o) }
            fn difference_(&self, o: &Self) -> Self { self.difference(o) }
            fn get_(&self, k: u32) -> Option<Vec<Vec<u32>>> { self.get(k).map(|c| c.iter_()) }
            fn ins_restr(&mut self, k: u32, c: &Self::Child) { self.insert_restriction(k, c.clone()) }
            fn rem_restr(&mut self, k: u32, c: &Self::Child) { self.remove_restriction(k, c) }
            fn restrictions(&self) -> Vec<(u32, Vec<Vec<u32>>)> { self.iter_restrictions().map(|(k, c)| (k, c.iter_())).collect() }
            fn mapped_(&self, ms: &[Option<PrefixTree2>]) -> Self { self.mapped($(ms[$i].clone()),*) }
        }
    };
}
impl_pt!(PrefixTree2, PrefixTree1, 2, [0, 1]);
impl_pt!(PrefixTree3, PrefixTree2, 3, [0, 1, 2]);
impl_pt!(PrefixTree4, PrefixTree3, 4, [0, 1, 2, 3]);
impl_pt!(PrefixTree5, PrefixTree4, 5, [0, 1, 2, 3, 4]);
impl_pt!(PrefixTree6, PrefixTree5, 6, [0, 1, 2, 3, 4, 5]);
impl_pt!(PrefixTree7, PrefixTree6, 7, [0, 1, 2, 3, 4, 5, 6]);
impl_pt!(PrefixTree8, PrefixTree7, 8, [0, 1, 2, 3, 4, 5, 6, 7]);
impl_pt!(PrefixTree9, PrefixTree8, 9, [0, 1, 2, 3, 4, 5, 6, 7, 8]);

#[derive(Clone, Debug, PartialEq)]
pub enum Op {
    Ins(usize, Vec<u32>), Rem(usize, Vec<u32>), Clear(usize), Clone(usize, usize), Union(usize, usize, usize), Diff(usize, usize, usize),
    CIns(usize, Vec<u32>), CClear(usize), InsR(usize, u32, usize), RemR(usize, u32, usize), Mapped(usize, u32, usize),
}
fn tv(t: &[u32]) -> String { if t.is_empty() { "-".into() } else { t.iter().map(|x| x.to_string()).collect::<Vec<_>>().join(".") } }
fn pv(s: &str) -> Vec<u32> { if s == "-" { vec![] } else { s.split('.').map(|x| x.parse().unwrap()).collect() } }
pub fn fmt_op(o: &Op) -> String {
    match o {
        Op::Ins(s, t) => format!("ins {} {}", s, tv(t)), Op::Rem(s, t) => format!("rem {} {}", s, tv(t)), Op::Clear(s) => format!("clear {}", s),
        Op::Clone(s, d) => format!("clone {} {}", s, d), Op::Union(a, b, d) => format!("union {} {} {}", a, b, d), Op::Diff(a, b, d) => format!("diff {} {} {}", a, b, d),
        Op::CIns(c, t) => format!("cins {} {}", c, tv(t)), Op::CClear(c) => format!("cclear {}", c),
        Op::InsR(s, k, c) => format!("insr {} {} {}", s, k, c), Op::RemR(s, k, c) => format!("remr {} {} {}", s, k, c), Op::Mapped(s, m, d) => format!("mapped {} {} {}", s, m, d),
    }
}
pub fn parse_op(s: &str) -> Op {
    let t: Vec<&str> = s.split_whitespace().collect();
    let n = |i: usize| -> usize { t[i].parse().unwrap() };
    match t[0] {
        "ins" => Op::Ins(n(1), pv(t[2])), "rem" => Op::Rem(n(1), pv(t[2])), "clear" => Op::Clear(n(1)), "clone" => Op::Clone(n(1), n(2)),
        "union" => Op::Union(n(1), n(2), n(3)), "diff" => Op::Diff(n(1), n(2), n(3)), "cins" => Op::CIns(n(1), pv(t[2])), "cclear" => Op::CClear(n(1)),
        "insr" => Op::InsR(n(1), n(2) as u32, n(3)), "remr" => Op::RemR(n(1), n(2) as u32, n(3)), "mapped" => Op::Mapped(n(1), n(2) as u32, n(3)),
        x => panic!("bad op {}", x),
    }
}

type Ref = BTreeSet<Vec<u32>>;
pub struct Fam<T: PT> { t: Vec<T>, r: Vec<Ref>, c: Vec<T::Child>, cr: Vec<Ref> }

/// the column maps used by `mapped`: base-4 digit i of the code selects the map of column i --
/// 0: none; 1: injective x -> x + 10 on {0, 1}; 2: COLLAPSING 0 -> 5, 1 -> 5; 3: a graph with several images, 0 -> {7, 9}, 1 -> {9} (the smallest is taken);
/// 2 is outside every domain
fn colmap(kind: u32) -> Option<PrefixTree2> {
    let mut m = PrefixTree2::new();
    match kind { 0 => return None, 1 => { m.insert([0, 10]); m.insert([1, 11]); }, 2 => { m.insert([0, 5]); m.insert([1, 5]); }, _ => { m.insert([0, 9]); m.insert([0, 7]); m.insert([1, 9]); } }
    Some(m)
}
fn mapval(kind: u32, x: u32) -> Option<u32> {
    match kind { 0 => Some(x), 1 => if x <= 1 { Some(x + 10) } else { None }, 2 => if x <= 1 { Some(5) } else { None }, _ => match x { 0 => Some(7), 1 => Some(9), _ => None } }
}

fn check_tree<T: PT>(t: &T, r: &Ref, what: &str, vals: u32) -> Result<(), String> {
    let it = t.iter_();
    let want: Vec<Vec<u32>> = r.iter().cloned().collect();
    if it != want { return Err(format!("iter({}): yields {:?} but the reference set is {:?} -- contents", what, it, want)); }
    if t.is_empty_() != r.is_empty() { return Err(format!("is_empty({}): returns {} but the container holds {} tuples -- is_empty", what, t.is_empty_(), r.len())); }
    for x in r.iter() { if !t.contains_(x) { return Err(format!("contains({}): {:?} not reported -- contains", what, x)); } }
    if T::N >= 1 {
        let rs = t.restrictions();
        let keys: Vec<u32> = rs.iter().map(|p| p.0).collect();
        let want_keys: Vec<u32> = r.iter().map(|x| x[0]).collect::<BTreeSet<u32>>().into_iter().collect();
        if keys != want_keys { return Err(format!("iter_restrictions({}): keys {:?} but the first columns present are {:?} -- empty-subtree", what, keys, want_keys)); }
        for k in 0..vals + 12 {
            let want: Vec<Vec<u32>> = r.iter().filter(|x| x[0] == k).map(|x| x[1..].to_vec()).collect();
            match t.get_(k) {
                None => if !want.is_empty() { return Err(format!("get({}, {}): None but tuples with that prefix exist -- get", what, k)); },
                Some(got) => { if want.is_empty() { return Err(format!("get({}, {}): Some(..) although no tuple has that prefix -- empty-subtree", what, k)); }
                    if got != want { return Err(format!("get({}, {}): {:?} vs {:?} -- get", what, k, got, want)); } }
            }
        }
    }
    Ok(())
}

fn step<T: PT>(f: &mut Fam<T>, op: &Op, vals: u32) -> Result<(), String> {
    match op {
        Op::Ins(s, t) => { let a = f.t[*s].insert_(t); let b = f.r[*s].insert(t.clone()); if a != b { return Err(format!("insert: returned {} (reference {}) -- result", a, b)); } }
        Op::Rem(s, t) => { let a = f.t[*s].remove_(t); let b = f.r[*s].remove(t); if a != b { return Err(format!("remove: returned {} (reference {}) -- result", a, b)); } }
        Op::Clear(s) => { f.t[*s].clear_(); f.r[*s].clear(); }
        Op::Clone(s, d) => { if s != d { let c = f.t[*s].clone(); f.t[*d] = c; let c = f.r[*s].clone(); f.r[*d] = c; } }
        Op::Union(a, b, d) => { let u = f.t[*a].union_(&f.t[*b]); let w: Ref = f.r[*a].union(&f.r[*b]).cloned().collect(); f.t[*d] = u; f.r[*d] = w; }
        Op::Diff(a, b, d) => { let u = f.t[*a].difference_(&f.t[*b]); let w: Ref = f.r[*a].difference(&f.r[*b]).cloned().collect(); f.t[*d] = u; f.r[*d] = w; }
        Op::CIns(c, t) => { f.c[*c].insert_(t); f.cr[*c].insert(t.clone()); }
        Op::CClear(c) => { f.c[*c].clear_(); f.cr[*c].clear(); }
        Op::InsR(s, k, c) => { if T::N >= 1 { f.t[*s].ins_restr(*k, &f.c[*c]); for x in f.cr[*c].iter() { let mut v = vec![*k]; v.extend(x); f.r[*s].insert(v); } } }
        Op::RemR(s, k, c) => { if T::N >= 1 { f.t[*s].rem_restr(*k, &f.c[*c]); for x in f.cr[*c].iter() { let mut v = vec![*k]; v.extend(x); f.r[*s].remove(&v); } } }
        Op::Mapped(s, code, d) => {
            let kind = |i: usize| -> u32 { (code >> (2 * i)) & 3 };
            let ms: Vec<Option<PrefixTree2>> = (0..T::N.max(1)).map(|i| colmap(kind(i))).collect();
            let m = f.t[*s].mapped_(&ms);
            let mut w = Ref::new();
            'x: for x in f.r[*s].iter() { let mut y = vec![]; for (i, v) in x.iter().enumerate() { match mapval(kind(i), *v) { Some(z) => y.push(z), None => continue 'x } } w.insert(y); }
            f.t[*d] = m; f.r[*d] = w;
        }
    }
    for s in 0..f.t.len() { check_tree(&f.t[s], &f.r[s], &format!("slot {}", s), vals)?; }
    for c in 0..f.c.len() { let it = f.c[c].iter_(); let want: Vec<Vec<u32>> = f.cr[c].iter().cloned().collect(); if it != want { return Err(format!("clone-independence: restriction operand {} changed: {:?} vs {:?} -- contents", c, it, want)); } }
    Ok(())
}

fn run_seq<T: PT>(ops: &[Op], vals: u32) -> Result<(), (usize, String)> {
    let mut f: Fam<T> = Fam { t: (0..3).map(|_| T::new_()).collect(), r: (0..3).map(|_| Ref::new()).collect(), c: (0..2).map(|_| <T::Child>::new_()).collect(), cr: (0..2).map(|_| Ref::new()).collect() };
    for (i, op) in ops.iter().enumerate() {
        match catch(|| step(&mut f, op, vals)) { Ok(Ok(())) => {}, Ok(Err(e)) => return Err((i, e)), Err(p) => return Err((i, format!("{}: panic: {} -- panic", fmt_op(op).split(' ').next().unwrap(), p))) }
    }
    Ok(())
}

fn run_arity(n: usize, ops: &[Op], vals: u32) -> Result<(), (usize, String)> {
    match n { 0 => run_seq::<PrefixTree0>(ops, vals), 1 => run_seq::<PrefixTree1>(ops, vals), 2 => run_seq::<PrefixTree2>(ops, vals), 3 => run_seq::<PrefixTree3>(ops, vals),
        4 => run_seq::<PrefixTree4>(ops, vals), 5 => run_seq::<PrefixTree5>(ops, vals), 6 => run_seq::<PrefixTree6>(ops, vals), 7 => run_seq::<PrefixTree7>(ops, vals),
        8 => run_seq::<PrefixTree8>(ops, vals), 9 => run_seq::<PrefixTree9>(ops, vals), _ => panic!("arity") }
}

pub fn replay(seq: &str) -> Result<(), (usize, String)> {
    let (n, rest) = seq.split_once(':').expect("pt replay: <arity>:<ops>");
    let ops: Vec<Op> = rest.split(';').filter(|s| !s.trim().is_empty()).map(parse_op).collect();
    run_arity(n.parse().unwrap(), &ops, 3)
}

fn tuples(n: usize, vals: u32, limit: usize) -> Vec<Vec<u32>> {
    // all tuples over {0..vals} for small n; for larger n the varying columns are the first and the last two, the middle is constant 1
    let free = n.min(3);
    let mut out = vec![];
    let total = (vals as usize).pow(free as u32);
    for code in 0..total {
        let mut c = code; let mut fr = vec![]; for _ in 0..free { fr.push((c % vals as usize) as u32); c /= vals as usize; }
        let mut t = vec![1u32; n];
        if n >= 1 { t[0] = fr[0]; } if n >= 2 { t[n - 1] = fr[1]; } if n >= 3 { t[n - 2] = fr[2]; }
        out.push(t);
        if out.len() >= limit { break; }
    }
    out
}

fn alphabet(n: usize, vals: u32) -> Vec<Op> {
    let ts = tuples(n, vals, 9);
    let cts = tuples(n.saturating_sub(1), vals, 4);
    let mut a = vec![];
    for t in ts.iter() { a.push(Op::Ins(0, t.clone())); a.push(Op::Rem(0, t.clone())); }
    for t in ts.iter().take(3) { a.push(Op::Ins(1, t.clone())); }
    a.push(Op::Clear(0)); a.push(Op::Clone(0, 1)); a.push(Op::Clone(1, 0)); a.push(Op::Union(0, 1, 2)); a.push(Op::Diff(0, 1, 2)); a.push(Op::Diff(0, 1, 0)); a.push(Op::Union(0, 1, 0));
    if n >= 1 {
        for t in cts.iter() { a.push(Op::CIns(0, t.clone())); }
        a.push(Op::CClear(0));
        for k in 0..vals.min(2) { a.push(Op::InsR(0, k, 0)); a.push(Op::RemR(0, k, 0)); }
        // no map; injective on column 0; injective on column 1 (into slot 0); injective on columns 0 and 1;
        // collapsing on the second-to-last column; collapsing on column 0; several images on the last column; collapsing everywhere
        let last = (n - 1) as u32; let pen = n.saturating_sub(2) as u32;
        a.push(Op::Mapped(0, 0, 2)); a.push(Op::Mapped(0, 1, 2)); a.push(Op::Mapped(0, 1 << 2, 0)); a.push(Op::Mapped(0, 1 | (1 << 2), 2));
        a.push(Op::Mapped(0, 2 << (2 * pen), 2)); a.push(Op::Mapped(0, 2, 2)); a.push(Op::Mapped(0, 3 << (2 * last), 2));
        a.push(Op::Mapped(0, (0..n as u32).map(|i| 2 << (2 * i)).sum(), 2));
    } else { a.push(Op::Mapped(0, 0, 2)); }
    a
}

pub fn sweep(thorough: bool, seed: u64) -> Report {
    let mut rep = Report::new();
    let mut bounds = vec![];
    for n in 0..=9usize {
        let vals = if n <= 2 { 3 } else { 2 };
        let alpha = alphabet(n, vals);
        let len = if thorough { if n <= 4 { 4 } else { 3 } } else { 3 };
        bounds.push(format!("arity {}: all {}^{} sequences", n, alpha.len(), len));
        let mut idx = vec![0usize; len];
        'a: loop {
            let ops: Vec<Op> = idx.iter().map(|&i| alpha[i].clone()).collect();
            rep.evaluations += 1;
            let muts = ops.iter().filter(|o| matches!(o, Op::Ins(..) | Op::InsR(..) | Op::Union(..) | Op::Mapped(..))).count();
            if muts >= 2 { rep.nontrivial_count += 1; }
            if let Err((i, e)) = run_arity(n, &ops, vals) { rep.fail(format!("pt:{}:{}", n, ops[..=i].iter().map(fmt_op).collect::<Vec<_>>().join(";")), i, e); }
            if rep.samples.len() < 3 && rep.evaluations % 70_001 == 0 { rep.samples.push(format!("pt:{}:{}", n, ops.iter().map(fmt_op).collect::<Vec<_>>().join(";"))); }
            let mut p = 0; loop { if p == len { break 'a; } idx[p] += 1; if idx[p] < alpha.len() { break; } idx[p] = 0; p += 1; }
        }
        // seeded random longer sequences
        let mut rng = Rng::new(seed * 31 + n as u64 + 7);
        let (count, l2) = if thorough { (3000, 40) } else { (300, 30) };
        for _ in 0..count {
            let ops: Vec<Op> = (0..l2).map(|_| alpha[rng.below(alpha.len() as u64) as usize].clone()).collect();
            rep.evaluations += 1; rep.nontrivial_count += 1;
            if let Err((i, e)) = run_arity(n, &ops, vals) { rep.fail(format!("pt:{}:{}", n, ops[..=i].iter().map(fmt_op).collect::<Vec<_>>().join(";")), i, e); }
        }
    }
    rep.exhaustive = false;
    rep.bound = format!("{}; plus seeded random sequences per arity (seed {}); values per column 3 (arity <= 2) or 2; arities >= 4 vary the first and the last two columns", bounds.join(", "), seed);
    rep
}
