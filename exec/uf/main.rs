// Executable contracts of unification.rs, run on the REAL file (textually included, so private fields
// are visible) over an exhaustively enumerated bounded domain.  Bounded stand-in / replay searcher:
// never counted as proof.
//
// usage: uf_native <max_elems> <max_ops>            exhaustive sweep
//        uf_native --replay "<op>;<op>;..."         run one sequence, report the first contract violated
#![allow(dead_code, unused_imports)]
include!(concat!(env!("EQLOG_REPO"), "/", env!("UF_FILE")));

#[derive(Clone, Copy, PartialEq, Eq, Debug)]
struct E(u32);
impl From<u32> for E { fn from(x: u32) -> E { E(x) } }
impl Into<u32> for E { fn into(self) -> u32 { self.0 } }

#[derive(Clone, Copy, Debug, PartialEq)]
enum Op { Grow, Root(u32), RootConst(u32), Union(u32, u32) }

fn op_str(o: &Op) -> String {
    match o { Op::Grow => "grow".into(), Op::Root(a) => format!("root {}", a), Op::RootConst(a) => format!("root_const {}", a), Op::Union(a, b) => format!("union {} {}", a, b) }
}
fn parse_op(s: &str) -> Op {
    let t: Vec<&str> = s.split_whitespace().collect();
    match t[0] { "grow" => Op::Grow, "root" => Op::Root(t[1].parse().unwrap()), "root_const" => Op::RootConst(t[1].parse().unwrap()),
        "union" => Op::Union(t[1].parse().unwrap(), t[2].parse().unwrap()), _ => panic!("bad op") }
}

// reference model: class id per element (smallest member)
#[derive(Clone)]
struct Ref { cls: Vec<u32> }
impl Ref {
    fn same(&self, a: u32, b: u32) -> bool { self.cls[a as usize] == self.cls[b as usize] }
    fn union(&mut self, a: u32, b: u32) { let (ca, cb) = (self.cls[a as usize], self.cls[b as usize]); for c in self.cls.iter_mut() { if *c == ca { *c = cb; } } }
}

fn rep_of(u: &Unification<E>, mut i: u32) -> Result<u32, String> {
    // independent reading of the parent array (terminates: at most n steps, else a cycle)
    for _ in 0..=u.parents.len() { let p = u.parents[i as usize].0; if p == i { return Ok(i); } i = p; }
    Err("parent pointers contain a cycle (forest invariant broken)".into())
}

fn check_state(u: &Unification<E>, r: &Ref) -> Result<(), String> {
    let n = r.cls.len() as u32;
    if u.len() != n as usize { return Err(format!("len() == {} but {} elements exist", u.len(), n)); }
    for i in 0..n { for j in 0..n {
        let (ri, rj) = (rep_of(u, i)?, rep_of(u, j)?);
        if (ri == rj) != r.same(i, j) { return Err(format!("are_equal({}, {}) is {} but the generated equivalence says {}", i, j, ri == rj, r.same(i, j))); }
    } }
    Ok(())
}

fn step(u: &mut Unification<E>, r: &mut Ref, op: Op) -> Result<(), String> {
    let n = r.cls.len() as u32;
    match op {
        Op::Grow => { u.increase_size_to(n as usize + 1); r.cls.push(n); }
        Op::Root(a) => { if a >= n { return Ok(()); }
            let before: Vec<u32> = (0..n).map(|i| rep_of(u, i).unwrap()).collect();
            let x = u.root(E(a)).0;
            if x != before[a as usize] { return Err(format!("root({}) returned {} but the representative was {}", a, x, before[a as usize])); }
            for i in 0..n { if rep_of(u, i)? != before[i as usize] { return Err(format!("root({}) changed the representative of {}", a, i)); } }
            if u.root(E(x)).0 != x { return Err(format!("root not idempotent on {}", x)); } }
        Op::RootConst(a) => { if a >= n { return Ok(()); }
            #[cfg(has_root_const)] let x = u.root_const(E(a)).0; #[cfg(not(has_root_const))] let x = rep_of(u, a)?; if x != rep_of(u, a)? { return Err(format!("root_const({}) returned {} but the representative is {}", a, x, rep_of(u, a)?)); } }
        Op::Union(a, b) => { if a >= n || b >= n { return Ok(()); }
            let (l, rr) = (u.root(E(a)), u.root(E(b)));
            let before: Vec<u32> = (0..n).map(|i| rep_of(u, i).unwrap()).collect();
            u.union_roots_into(l, rr); r.union(a, b);
            for i in 0..n { let want = if before[i as usize] == l.0 { rr.0 } else { before[i as usize] };
                if rep_of(u, i)? != want { return Err(format!("union_roots_into({}, {}): representative of {} is {} (contract: {})", l.0, rr.0, i, rep_of(u, i)?, want)); } } }
    }
    check_state(u, r)
}

fn run_seq(ops: &[Op]) -> Result<(), (usize, String)> {
    let mut u: Unification<E> = Unification::new();
    let mut r = Ref { cls: vec![] };
    for (k, op) in ops.iter().enumerate() {
        let res = std::panic::catch_unwind(std::panic::AssertUnwindSafe(|| step(&mut u, &mut r, *op)));
        match res { Ok(Ok(())) => {}, Ok(Err(e)) => return Err((k, e)), Err(_) => return Err((k, "panic".into())) }
    }
    Ok(())
}

fn main() {
    let args: Vec<String> = std::env::args().collect();
    std::panic::set_hook(Box::new(|_| {}));
    if args.len() >= 3 && args[1] == "--replay" {
        let ops: Vec<Op> = args[2].split(';').filter(|s| !s.trim().is_empty()).map(parse_op).collect();
        match run_seq(&ops) {
            Ok(()) => println!("{{\"replay\":\"pass\"}}"),
            Err((k, e)) => { println!("{{\"replay\":\"fail\",\"step\":{},\"what\":{:?}}}", k, e); std::process::exit(1); }
        }
        return;
    }
    if args.len() >= 3 && args[1] == "deep" {
        // one long uncompressed chain 0 -> 1 -> .. -> n (what n equate_ calls build when the new element always wins), then a mutable lookup of the
        // bottom element: must return n, compress the path, and must not exhaust the stack (the process runs on the default 8 MiB main-thread stack)
        let n: u32 = args[2].parse().unwrap();
        let mut u: Unification<E> = Unification::new();
        u.increase_size_to(n as usize + 1);
        for i in 0..n { u.union_roots_into(E(i), E(i + 1)); }
        let mut fails: Vec<String> = vec![];
        #[cfg(has_root_const)]
        { if u.root_const(E(0)) != E(n) { fails.push(format!("root_const(0) on a chain of {} links is not the top element -- deep-chain", n)); } }
        if u.root(E(0)) != E(n) { fails.push(format!("root(0) on a chain of {} links is not the top element -- deep-chain", n)); }
        for i in (0..=n).step_by(((n / 1000).max(1)) as usize) { if rep_of(&u, i) != Ok(n) { fails.push(format!("after root(0), the representative of {} is not the top element -- deep-chain", i)); break; } }
        match fails.first() { None => println!("{{\"deep\":\"pass\",\"links\":{}}}", n), Some(f) => { println!("{{\"deep\":\"fail\",\"what\":{:?}}}", f); std::process::exit(1); } }
        return;
    }
    let max_n: u32 = args.get(1).map(|s| s.parse().unwrap()).unwrap_or(4);
    let max_ops: usize = args.get(2).map(|s| s.parse().unwrap()).unwrap_or(5);
    // the sequences start with max_n grows (elements must exist), followed by every sequence of
    // <= max_ops operations over those elements plus one more grow
    let mut alphabet = vec![Op::Grow];
    for a in 0..max_n { alphabet.push(Op::Root(a)); alphabet.push(Op::RootConst(a)); for b in 0..max_n { if a != b { alphabet.push(Op::Union(a, b)); } } }
    alphabet.push(Op::Union(0, 0));
    let mut evaluations: u64 = 0; let mut nontrivial: u64 = 0;
    let mut idx = vec![0usize; max_ops];
    let mut samples: Vec<String> = vec![];
    'outer: loop {
        let mut ops: Vec<Op> = (0..max_n).map(|_| Op::Grow).collect();
        ops.extend(idx.iter().map(|&i| alphabet[i]));
        evaluations += 1;
        let unions = ops.iter().filter(|o| matches!(o, Op::Union(..))).count();
        if unions >= 2 { nontrivial += 1; if samples.len() < 3 && evaluations % 9973 == 0 { samples.push(ops.iter().map(op_str).collect::<Vec<_>>().join(";")); } }
        if let Err((k, e)) = run_seq(&ops) {
            println!("{{\"evaluations\":{},\"distinct_nontrivial\":{},\"fail\":{{\"input\":{:?},\"step\":{},\"what\":{:?}}}}}", evaluations, nontrivial,
                ops.iter().map(op_str).collect::<Vec<_>>().join(";"), k, e);
            std::process::exit(1);
        }
        let mut p = 0;
        loop { if p == max_ops { break 'outer; } idx[p] += 1; if idx[p] < alphabet.len() { break; } idx[p] = 0; p += 1; }
    }
    println!("{{\"evaluations\":{},\"distinct_nontrivial\":{},\"fail\":null,\"samples\":{:?},\"bound\":\"{} elements, all sequences of {} ops over an alphabet of {}\"}}",
        evaluations, nontrivial, samples, max_n, max_ops, alphabet.len());
}
