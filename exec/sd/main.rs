// C11 (bounded, partial): executable contract of the diagnostic renderer, run on the REAL eqlog/src/source_display.rs
// (included as a file), the real `Location` item of grammar_util.rs and the real `whipe_comments` of build.rs
// (both cut out mechanically by kit.extract at build time into $SD_EXTRACT).
#![allow(dead_code, unused_imports)]
mod grammar_util {
    use std::cmp::{max, min};
    include!(concat!(env!("SD_EXTRACT"), "/location.rs"));
}
mod source_display { include!(concat!(env!("EQLOG_REPO"), "/eqlog/src/source_display.rs")); }
include!(concat!(env!("SD_EXTRACT"), "/whipe_comments.rs"));

use grammar_util::Location;
use source_display::SourceDisplay;
use std::path::Path;

/// lines of the input: split at '\n' (a '\r' before it belongs to the terminator); a text with k line feeds has k + 1 lines,
/// the last of which may be empty -- so every position 0..=len lies in exactly one line
fn input_lines(src: &str) -> Vec<&str> {
    src.split('\n').map(|l| l.strip_suffix('\r').unwrap_or(l)).collect()
}

fn check(src: &str, loc: Location, kind: &str) -> Result<(), String> {
    let s = src.to_string();
    let path = Path::new("t.eql");
    let r = std::panic::catch_unwind(|| format!("{}", SourceDisplay { underlined: true, source_path: Some(path), ..SourceDisplay::new(&s, loc) }));
    let out = match r { Ok(o) => o, Err(e) => {
        let m = if let Some(s) = e.downcast_ref::<String>() { s.clone() } else if let Some(s) = e.downcast_ref::<&str>() { s.to_string() } else { "?".into() };
        return Err(format!("SourceDisplay::fmt: panic ({}) for a {} location -- panic-{}", m, kind, kind)); } };
    let lines = input_lines(src);
    // header: "--> t.eql:<n>"
    let first = out.lines().find_map(|l| l.trim_start().strip_prefix("--> t.eql:").map(|n| n.to_string())).ok_or("SourceDisplay::fmt: no header line -- format")?;
    let n: usize = first.parse().map_err(|_| "SourceDisplay::fmt: header line number unparsable -- format".to_string())?;
    if n == 0 || n > lines.len().max(1) { return Err(format!("SourceDisplay::fmt: reports line {} but the file has {} lines -- line-number", n, lines.len())); }
    // the reported position is an offset into the text the parser saw (comments blanked); its line is:
    let wiped = whipe_comments(src);
    let pos = loc.0.min(wiped.len());
    let want = wiped.as_bytes()[..pos].iter().filter(|&&b| b == b'\n').count() + 1;
    let want = want.min(lines.len().max(1));
    if n != want { return Err(format!("SourceDisplay::fmt: reports line {} but the position lies in line {} -- line-number", n, want)); }
    let mut shown = 0;
    for l in out.lines() {
        if let Some(p) = l.find(" | ") {
            if let Ok(k) = l[..p].trim().parse::<usize>() {
                let text = &l[p + 3..];
                shown += 1;
                if k == 0 || k > lines.len().max(1) || lines.get(k - 1).copied().unwrap_or("") != text { return Err(format!("SourceDisplay::fmt: excerpt line {} = {:?} is not a complete line of the input -- excerpt", k, text)); }
            }
        }
    }
    if shown == 0 { return Err("SourceDisplay::fmt: no excerpt line -- excerpt".into()); }
    Ok(())
}

fn check_wipe(src: &str) -> Result<(), String> {
    let w = whipe_comments(src);
    // offsets stay valid: same line structure as the text that `lines()` sees, and same length per line
    let a: Vec<&str> = src.lines().collect(); let b: Vec<&str> = w.lines().collect();
    // (a trailing line terminator may be dropped: that shortens the text only at its end)
    if b.len() > a.len() || a[b.len()..].iter().any(|l| !l.is_empty()) { return Err(format!("whipe_comments: {} lines become {} -- wipe", a.len(), b.len())); }
    for (x, y) in a.iter().zip(b.iter()) { if x.len() != y.len() { return Err("whipe_comments: a line changes its byte length -- wipe".into()); } }
    Ok(())
}

/// the locations error.rs:148-200 can produce for this text: token spans (begin and end on non-whitespace characters of the blanked text),
/// one-byte InvalidToken locations at a non-whitespace character, and (len, len+1) for an unexpected end of file
fn locations(src: &str) -> Vec<(Location, &'static str)> {
    let w = whipe_comments(src);
    // unexpected end of file: LALRPOP reports the end of the LAST TOKEN (not the end of the text), i.e. the byte after the last
    // non-blank character of the blanked text; trailing blanks and line terminators come after it
    let mut v = vec![];
    if let Some((i, c)) = w.char_indices().filter(|(_, c)| !c.is_whitespace()).last() { let p = i + c.len_utf8(); v.push((Location(p, p + 1), "eof")); }
    let starts: Vec<usize> = w.char_indices().filter(|(_, c)| !c.is_whitespace()).map(|(i, _)| i).collect();
    let ends: Vec<usize> = w.char_indices().filter(|(_, c)| !c.is_whitespace()).map(|(i, c)| i + c.len_utf8()).collect();
    for &b in &starts { v.push((Location(b, b + 1), "invalid-token")); for &e in &ends { if e > b { v.push((Location(b, e), "token")); } } }
    v
}

fn main() {
    std::panic::set_hook(Box::new(|_| {}));
    let args: Vec<String> = std::env::args().collect();
    if args.len() >= 3 && args[1] == "--replay" {
        // "<escaped text>|b|e|kind"
        let p: Vec<&str> = args[2].rsplitn(4, '|').collect();
        let (kind, e, b, text) = (p[0], p[1].parse::<usize>().unwrap(), p[2].parse::<usize>().unwrap(), p[3]);
        let text = text.replace("\\n", "\n").replace("\\r", "\r");
        let kind: &'static str = match kind { "eof" => "eof", "invalid-token" => "invalid-token", _ => "token" };
        match check_wipe(&text).and_then(|_| check(&text, Location(b, e), kind)) {
            Ok(()) => println!("{{\"replay\":\"pass\"}}"),
            Err(m) => { println!("{{\"replay\":\"fail\",\"step\":0,\"what\":{:?}}}", m); std::process::exit(1); }
        }
        return;
    }
    let max_len: usize = args.get(1).and_then(|s| s.parse().ok()).unwrap_or(5);
    let alphabet: [&str; 6] = ["a", " ", "/", "\n", "\r\n", "é"];
    let mut strings: Vec<String> = vec![String::new()];
    let mut frontier = vec![String::new()];
    for _ in 0..max_len { let mut next = Vec::new(); for s in &frontier { for a in alphabet { next.push(format!("{s}{a}")); } } strings.extend(next.iter().cloned()); frontier = next; }
    let (mut evals, mut nontrivial) = (0u64, 0u64);
    let mut fails: Vec<(String, String)> = vec![];
    let mut samples: Vec<String> = vec![];
    let esc = |s: &str| s.replace('\n', "\\n").replace('\r', "\\r");
    for s in &strings {
        let mut record = |input: String, e: String, fails: &mut Vec<(String, String)>| { let class = e.split(" -- ").nth(1).unwrap_or("").to_string(); if !fails.iter().any(|f| f.1.split(" -- ").nth(1).unwrap_or("") == class) { fails.push((input, e)); } };
        if let Err(e) = check_wipe(s) { record(format!("{}|0|1|token", esc(s)), e, &mut fails); }
        for (loc, kind) in locations(s) {
            evals += 1;
            if s.contains('\n') { nontrivial += 1; }
            if let Err(e) = check(s, loc, kind) { record(format!("{}|{}|{}|{}", esc(s), loc.0, loc.1, kind), e, &mut fails); }
            if samples.len() < 3 && evals % 20011 == 0 { samples.push(format!("{}|{}|{}|{}", esc(s), loc.0, loc.1, kind)); }
        }
    }
    let fj: Vec<String> = fails.iter().map(|(i, e)| format!("{{\"input\":{:?},\"step\":0,\"what\":{:?},\"function\":{:?},\"class\":{:?}}}", i, e, e.split(':').next().unwrap_or(""), e.split(" -- ").nth(1).unwrap_or(""))).collect();
    println!("{{\"evaluations\":{},\"distinct_nontrivial\":{},\"samples\":{:?},\"fails\":[{}],\"bound\":\"all texts of <= {} symbols over {{a, space, /, LF, CRLF, e-acute}} x all locations the parse-error conversion can produce (token spans, one-byte invalid-token locations, (eof, eof+1))\",\"exhaustive\":true}}",
        evals, nontrivial, samples, fj.join(","), max_len);
    if !fails.is_empty() { std::process::exit(1); }
}
