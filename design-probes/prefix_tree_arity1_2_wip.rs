#![allow(unused_imports)]
use vstd::prelude::*;
verus! {

// ---------------- WBTreeMap: contract-only (proved in the wbtree unit) ----------------
#[verifier::external_body]
#[verifier::accept_recursive_types(V)]
pub struct WBTreeMap<V: Clone> { x: core::marker::PhantomData<V> }

impl<V: Clone> WBTreeMap<V> {
    pub uninterp spec fn view(&self) -> Map<u32, V>;

    #[verifier::external_body]
    pub const fn new() -> (r: Self) ensures r@ == Map::<u32, V>::empty() { unimplemented!() }
    #[verifier::external_body]
    pub fn contains_key(&self, key: &u32) -> (b: bool) ensures b == self@.contains_key(*key) { unimplemented!() }
    #[verifier::external_body]
    pub fn get(&self, key: &u32) -> (r: Option<&V>)
        ensures match r { Some(v) => self@.contains_key(*key) && *v == self@[*key], None => !self@.contains_key(*key) }
    { unimplemented!() }
    #[verifier::external_body]
    pub fn get_mut(&mut self, key: &u32) -> (r: Option<&mut V>)
        ensures
            match r {
                Some(v) => old(self)@.contains_key(*key) && *v == old(self)@[*key]
                    && final(self)@ == old(self)@.insert(*key, *final(v)),
                None => !old(self)@.contains_key(*key) && final(self)@ == old(self)@,
            }
    { unimplemented!() }
    #[verifier::external_body]
    pub fn insert(&mut self, key: u32, value: V) -> (r: Option<V>)
        ensures final(self)@ == old(self)@.insert(key, value),
            r == (if old(self)@.contains_key(key) { Some(old(self)@[key]) } else { None::<V> })
    { unimplemented!() }
    #[verifier::external_body]
    pub fn remove(&mut self, key: &u32) -> (r: Option<V>)
        ensures final(self)@ == old(self)@.remove(*key),
            r == (if old(self)@.contains_key(*key) { Some(old(self)@[*key]) } else { None::<V> })
    { unimplemented!() }
    #[verifier::external_body]
    pub fn is_empty(&self) -> (b: bool) ensures b == (self@ =~= Map::<u32, V>::empty()) { unimplemented!() }
    #[verifier::external_body]
    pub fn clear(&mut self) ensures final(self)@ == Map::<u32, V>::empty() { unimplemented!() }

    // ---- real text from map.rs (entry API) ----
    pub fn entry<'a>(&'a mut self, key: u32) -> (e: Entry<'a, V>)
        ensures match e {
            Entry::Occupied(o) => old(self)@.contains_key(key) && o.key == key && *o.map == *old(self) && *final(o.map) == *final(self),
            Entry::Vacant(v) => !old(self)@.contains_key(key) && v.key == key && *v.map == *old(self) && *final(v.map) == *final(self),
        }
    {
        if self.contains_key(&key) {
            Entry::Occupied(OccupiedEntry { key, map: self })
        } else {
            Entry::Vacant(VacantEntry { key, map: self })
        }
    }
}

pub enum Entry<'a, V: Clone> {
    Occupied(OccupiedEntry<'a, V>),
    Vacant(VacantEntry<'a, V>),
}

pub struct OccupiedEntry<'a, V: Clone> {
    pub key: u32,
    pub map: &'a mut WBTreeMap<V>,
}

pub struct VacantEntry<'a, V: Clone> {
    pub key: u32,
    pub map: &'a mut WBTreeMap<V>,
}

impl<'a, V: Clone> OccupiedEntry<'a, V> {
    pub fn get_mut(&mut self) -> (r: &mut V)
        requires old(self).map@.contains_key(old(self).key)
        ensures *r == old(self).map@[old(self).key], final(self).key == old(self).key,
            final(self).map@ == old(self).map@.insert(old(self).key, *final(r)),
    {
        self.map.get_mut(&self.key).unwrap()
    }

    pub fn remove(self) -> (r: V)
        requires old(self.map)@.contains_key(self.key)
        ensures r == old(self.map)@[self.key], final(self.map)@ == old(self.map)@.remove(self.key)
    {
        self.map.remove(&self.key).unwrap()
    }
}

impl<'a, V: Clone> VacantEntry<'a, V> {
    pub fn insert(self, value: V) -> (r: &'a mut V)
        ensures *r == value, final(self.map)@ == old(self.map)@.insert(self.key, *final(r))
    {
        self.map.insert(self.key.clone(), value);
        self.map.get_mut(&self.key).unwrap()
    }
}


// or_insert / or_insert_with: real text from map.rs
impl<'a, V: Clone> Entry<'a, V> {
    pub fn or_insert_with<F: FnOnce() -> V>(self, default: F) -> (r: &'a mut V)
        requires default.requires(()),
            match self { Entry::Occupied(o) => o.map@.contains_key(o.key), Entry::Vacant(v) => !v.map@.contains_key(v.key) },
        ensures
            match self {
                Entry::Occupied(o) => *r == o.map@[o.key] && final(o.map)@ == o.map@.insert(o.key, *final(r)),
                Entry::Vacant(v) => default.ensures((), *r) && final(v.map)@ == v.map@.insert(v.key, *final(r)),
            }
    {
        match self {
            Entry::Occupied(entry) => entry.into_mut(),
            Entry::Vacant(entry) => entry.insert(default()),
        }
    }
}
impl<'a, V: Clone> OccupiedEntry<'a, V> {
    pub fn into_mut(self) -> (r: &'a mut V)
        requires old(self.map)@.contains_key(self.key)
        ensures *r == old(self.map)@[self.key], final(self.map)@ == old(self.map)@.insert(self.key, *final(r))
    {
        self.map.get_mut(&self.key).unwrap()
    }
}

// ---------------- WBTreeSet: contract-only here ----------------
#[verifier::external_body]
pub struct WBTreeSet { x: u32 }
impl WBTreeSet {
    pub uninterp spec fn view(&self) -> Set<u32>;
    #[verifier::external_body]
    pub const fn new() -> (r: Self) ensures r@ == Set::<u32>::empty() { unimplemented!() }
    #[verifier::external_body]
    pub fn insert(&mut self, value: u32) -> (b: bool) ensures final(self)@ == old(self)@.insert(value), b == !old(self)@.contains(value) { unimplemented!() }
    #[verifier::external_body]
    pub fn contains(&self, value: &u32) -> (b: bool) ensures b == self@.contains(*value) { unimplemented!() }
    #[verifier::external_body]
    pub fn remove(&mut self, value: &u32) -> (b: bool) ensures final(self)@ == old(self)@.remove(*value), b == old(self)@.contains(*value) { unimplemented!() }
    #[verifier::external_body]
    pub fn is_empty(&self) -> (b: bool) ensures b == (self@ =~= Set::<u32>::empty()) { unimplemented!() }
    #[verifier::external_body]
    pub fn difference(&self, other: &Self) -> (r: Self) ensures r@ == self@.difference(other@) { unimplemented!() }
}
impl Clone for WBTreeSet { #[verifier::external_body] fn clone(&self) -> (r: Self) ensures r@ == self@ { unimplemented!() } }

// ---------------- prefix_tree.rs real text (pattern parameters desugared) ----------------
pub struct PrefixTree1 {
    pub set: WBTreeSet,
}
impl Clone for PrefixTree1 { #[verifier::external_body] fn clone(&self) -> (r: Self) ensures r == *self { unimplemented!() } }

pub struct PrefixTree2 {
    pub map: WBTreeMap<PrefixTree1>,
}

pub open spec fn t1(a: u32) -> Seq<u32> { seq![a] }
pub open spec fn t2(a: u32, b: u32) -> Seq<u32> { seq![a, b] }
pub proof fn lemma_t1(t: Seq<u32>, a: u32) ensures (t == t1(a)) <==> (t.len() == 1 && t[0] == a)
{ if t.len() == 1 && t[0] == a { assert(t =~= t1(a)); } }
pub proof fn lemma_t2(t: Seq<u32>, a: u32, b: u32) ensures (t == t2(a, b)) <==> (t.len() == 2 && t[0] == a && t[1] == b), t2(a, b).skip(1) == t1(b)
{ if t.len() == 2 && t[0] == a && t[1] == b { assert(t =~= t2(a, b)); } assert(t2(a, b).skip(1) =~= t1(b)); }
pub proof fn lemma_skip1(t: Seq<u32>) requires t.len() == 2 ensures t.skip(1) == t1(t[1]), t == t2(t[0], t[1])
{ assert(t.skip(1) =~= t1(t[1])); assert(t =~= t2(t[0], t[1])); }

impl PrefixTree1 {
    pub open spec fn view(&self) -> ISet<Seq<u32>> { ISet::new(|t: Seq<u32>| t.len() == 1 && self.set@.contains(t[0])) }
    pub open spec fn wf(&self) -> bool { true }
    pub fn new() -> (r: Self) ensures r@ =~= ISet::<Seq<u32>>::empty(), r.wf() {
        Self {
            set: WBTreeSet::new(),
        }
    }
    pub fn insert(&mut self, arg0__: [u32; 1]) -> (b: bool)
        ensures final(self)@ == old(self)@.insert(arg0__@), b == !old(self)@.contains(arg0__@), final(self).wf()
    { let el0 = arg0__[0];
        proof { assert(arg0__@ =~= t1(el0)); }
        let ghost pre = *self;
        let r =
        self.set.insert(el0)
        ;
        proof {
            assert forall|t: Seq<u32>| self@.contains(t) <==> pre@.insert(t1(el0)).contains(t) by { lemma_t1(t, el0); }
            assert(self@ =~= pre@.insert(t1(el0)));
            lemma_t1(t1(el0), el0);
        }
        r
    }
    pub fn contains(&self, arg0__: [u32; 1]) -> (b: bool)
        ensures b == self@.contains(arg0__@)
    { let el0 = arg0__[0];
        proof { assert(arg0__@ =~= t1(el0)); lemma_t1(t1(el0), el0); }
        self.set.contains(&el0)
    }
    pub fn remove(&mut self, arg0__: [u32; 1]) -> (b: bool)
        ensures final(self)@ == old(self)@.remove(arg0__@), b == old(self)@.contains(arg0__@)
    { let el0 = arg0__[0];
        proof { assert(arg0__@ =~= t1(el0)); }
        let ghost pre = *self;
        let r =
        self.set.remove(&el0)
        ;
        proof {
            assert forall|t: Seq<u32>| self@.contains(t) <==> pre@.remove(t1(el0)).contains(t) by { lemma_t1(t, el0); }
            assert(self@ =~= pre@.remove(t1(el0)));
            lemma_t1(t1(el0), el0);
        }
        r
    }
    pub fn is_empty(&self) -> (b: bool) ensures b == (self@ =~= ISet::<Seq<u32>>::empty()) {
        proof {
            if !(self.set@ =~= Set::<u32>::empty()) { let x = choose|x: u32| self.set@.contains(x); lemma_t1(t1(x), x); assert(self@.contains(t1(x))); }
        }
        self.set.is_empty()
    }
    pub fn difference(&self, other: &Self) -> (r: Self) ensures r@ == self@.difference(other@) {
        let r =
        Self {
            set: self.set.difference(&other.set),
        }
        ;
        proof { assert(r@ =~= self@.difference(other@)); }
        r
    }
}

impl PrefixTree2 {
    pub open spec fn view(&self) -> ISet<Seq<u32>> {
        ISet::new(|t: Seq<u32>| t.len() == 2 && self.map@.contains_key(t[0]) && self.map@[t[0]]@.contains(t1(t[1])))
    }
    /// no key maps to an empty subtree
    pub open spec fn wf(&self) -> bool { forall|k: u32| #[trigger] self.map@.contains_key(k) ==> !(self.map@[k]@ =~= ISet::<Seq<u32>>::empty()) }

    pub fn insert(&mut self, arg0__: [u32; 2]) -> (b: bool)
        requires old(self).wf()
        ensures final(self).wf(), final(self)@ == old(self)@.insert(arg0__@), b == !old(self)@.contains(arg0__@)
    { let el0 = arg0__[0]; let el1 = arg0__[1];
        proof { assert(arg0__@ =~= t2(el0, el1)); assert([el1]@ =~= t1(el1)); }
        let ghost pre = *self;
        let r =
        self.map
            .entry(el0)
            .or_insert_with(PrefixTree1::new)
            .insert([el1])
        ;
        proof {
            assert forall|t: Seq<u32>| self@.contains(t) <==> pre@.insert(t2(el0, el1)).contains(t) by { lemma_t2(t, el0, el1); if t.len() == 2 { lemma_t1(t1(t[1]), el1); lemma_t1(t1(el1), t[1]); } }
            assert(self@ =~= pre@.insert(t2(el0, el1)));
            lemma_t2(t2(el0, el1), el0, el1);
            assert forall|k: u32| #[trigger] self.map@.contains_key(k) implies !(self.map@[k]@ =~= ISet::<Seq<u32>>::empty()) by {
                if k == el0 { assert(self.map@[k]@.contains(t1(el1))); }
            }
        }
        r
    }
    pub fn contains(&self, arg0__: [u32; 2]) -> (b: bool)
        ensures b == self@.contains(arg0__@)
    { let el0 = arg0__[0]; let el1 = arg0__[1];
        proof { assert(arg0__@ =~= t2(el0, el1)); assert([el1]@ =~= t1(el1)); lemma_t2(t2(el0, el1), el0, el1); }
        match self.map.get(&el0) { None => false, Some(tree) => tree.contains([el1]) }
    }
    pub fn remove(&mut self, arg0__: [u32; 2]) -> (b: bool)
        requires old(self).wf()
        ensures final(self).wf(), final(self)@ == old(self)@.remove(arg0__@), b == old(self)@.contains(arg0__@)
    { let el0 = arg0__[0]; let el1 = arg0__[1];
        proof { assert(arg0__@ =~= t2(el0, el1)); assert([el1]@ =~= t1(el1)); lemma_t2(t2(el0, el1), el0, el1); }
        let ghost pre = *self;
        let ghost mut mid: ISet<Seq<u32>> = ISet::empty();
        let r =
        match self.map.entry(el0) {
            Entry::Occupied(mut entry) => {
                let tree = entry.get_mut();
                let was_present = tree.remove([el1]);
                proof { mid = tree@; assert(mid == pre.map@[el0]@.remove(t1(el1))); }
                if tree.is_empty() {
                    entry.remove();
                }
                was_present
            }
            Entry::Vacant(_) => false,
        }
        ;
        proof {
            if pre.map@.contains_key(el0) {
                assert(mid == pre.map@[el0]@.remove(t1(el1)));
                if mid =~= ISet::<Seq<u32>>::empty() { assert(self.map@ =~= pre.map@.remove(el0)); }
                else { assert(self.map@.contains_key(el0) && self.map@[el0]@ == mid); assert(self.map@.dom() =~= pre.map@.dom()); }
            } else { assert(self.map@ =~= pre.map@); }
            assert forall|t: Seq<u32>| self@.contains(t) <==> pre@.remove(t2(el0, el1)).contains(t) by {
                lemma_t2(t, el0, el1);
                if t.len() == 2 { lemma_t1(t1(t[1]), el1); lemma_t1(t1(el1), t[1]);
                    if t[0] == el0 && pre.map@.contains_key(el0) {
                        if mid =~= ISet::<Seq<u32>>::empty() {
                            if pre.map@[el0]@.contains(t1(t[1])) && t[1] != el1 { assert(mid.contains(t1(t[1]))); }
                        }
                    } else if t[0] != el0 && pre.map@.contains_key(t[0]) {
                        assert(self.map@.contains_key(t[0]) && self.map@[t[0]] == pre.map@[t[0]]);
                    }
                }
            }
            assert(self@ =~= pre@.remove(t2(el0, el1)));
            assert forall|k: u32| #[trigger] self.map@.contains_key(k) implies !(self.map@[k]@ =~= ISet::<Seq<u32>>::empty()) by {
                if k != el0 { assert(pre.map@.contains_key(k) && self.map@[k] == pre.map@[k]); }
            }
        }
        r
    }
    pub fn is_empty(&self) -> (b: bool)
        requires self.wf()
        ensures b == (self@ =~= ISet::<Seq<u32>>::empty())
    {
        proof {
            if !(self.map@ =~= Map::<u32, PrefixTree1>::empty()) {
                let k = choose|k: u32| self.map@.contains_key(k);
                let s = choose|s: Seq<u32>| self.map@[k]@.contains(s);
                assert(s.len() == 1); lemma_t1(s, s[0]);
                lemma_t2(t2(k, s[0]), k, s[0]);
                assert(self@.contains(t2(k, s[0])));
            }
        }
        self.map.is_empty()
    }
}

} // verus!
fn main() {}
