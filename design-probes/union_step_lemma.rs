use vstd::prelude::*;
verus! {

pub open spec fn split_lo<V>(m: Map<u32, V>, lo: Map<u32, V>, k: u32) -> bool {
    forall|x: u32| (#[trigger] lo.contains_key(x) <==> (m.contains_key(x) && x < k)) && (lo.contains_key(x) ==> lo[x] == m[x])
}
pub open spec fn split_hi<V>(m: Map<u32, V>, hi: Map<u32, V>, k: u32) -> bool {
    forall|x: u32| (#[trigger] hi.contains_key(x) <==> (m.contains_key(x) && k < x)) && (hi.contains_key(x) ==> hi[x] == m[x])
}

pub open spec fn merged_by<V, F: FnMut(&u32, V, V) -> V>(k: u32, a: V, b: V, out: V, ph: Option<F>) -> bool { exists|m: F| m.ensures((&k, a, b), out) }

/// res is the union of l and r; on common keys the value is produced by the callback called with (key, left value, right value)
pub open spec fn is_union<V, F: FnMut(&u32, V, V) -> V>(l: Map<u32, V>, r: Map<u32, V>, res: Map<u32, V>, ph: Option<F>) -> bool {
    &&& forall|x: u32| #[trigger] res.contains_key(x) <==> (l.contains_key(x) || r.contains_key(x))
    &&& forall|x: u32| l.contains_key(x) && !r.contains_key(x) ==> #[trigger] res[x] == l[x]
    &&& forall|x: u32| !l.contains_key(x) && r.contains_key(x) ==> #[trigger] res[x] == r[x]
    &&& forall|x: u32| l.contains_key(x) && r.contains_key(x) ==> #[trigger] merged_by(x, l[x], r[x], res[x], ph)
}

/// base = left: L = ll ∪ lr ∪ {k ↦ lv}, R split at k into (rlo, rv?, rhi)
pub proof fn lemma_union_step_left<V, F: FnMut(&u32, V, V) -> V>(
    lm: Map<u32, V>, rm: Map<u32, V>, ll: Map<u32, V>, lr: Map<u32, V>, k: u32, lv: V,
    rlo: Map<u32, V>, rhi: Map<u32, V>, nv: V, nl: Map<u32, V>, nr: Map<u32, V>, res: Map<u32, V>, ph: Option<F>)
    requires
        lm == ll.union_prefer_right(lr).insert(k, lv),
        forall|x: u32| #[trigger] ll.contains_key(x) ==> x < k, forall|x: u32| #[trigger] lr.contains_key(x) ==> k < x,
        split_lo(rm, rlo, k), split_hi(rm, rhi, k),
        rm.contains_key(k) ==> merged_by(k, lv, rm[k], nv, ph),
        !rm.contains_key(k) ==> nv == lv,
        is_union(ll, rlo, nl, ph), is_union(lr, rhi, nr, ph),
        res == nl.union_prefer_right(nr).insert(k, nv),
    ensures is_union(lm, rm, res, ph)
{
    assert forall|x: u32| #[trigger] res.contains_key(x) <==> (lm.contains_key(x) || rm.contains_key(x)) by {
        if x < k { assert(rlo.contains_key(x) <==> rm.contains_key(x)); assert(!nr.contains_key(x)) by { if nr.contains_key(x) { assert(lr.contains_key(x) || rhi.contains_key(x)); } } }
        else if x > k { assert(rhi.contains_key(x) <==> rm.contains_key(x)); assert(!nl.contains_key(x)) by { if nl.contains_key(x) { assert(ll.contains_key(x) || rlo.contains_key(x)); } } }
    }
    assert forall|x: u32| lm.contains_key(x) && !rm.contains_key(x) implies #[trigger] res[x] == lm[x] by {
        if x < k { assert(!rlo.contains_key(x)); assert(ll.contains_key(x)); assert(nl[x] == ll[x]); assert(!nr.contains_key(x)) by { if nr.contains_key(x) { assert(lr.contains_key(x) || rhi.contains_key(x)); } } }
        else if x > k { assert(!rhi.contains_key(x)); assert(lr.contains_key(x)); assert(nr[x] == lr[x]); assert(nr.contains_key(x)); }
    }
    assert forall|x: u32| !lm.contains_key(x) && rm.contains_key(x) implies #[trigger] res[x] == rm[x] by {
        if x < k { assert(rlo.contains_key(x)); assert(!ll.contains_key(x)); assert(nl[x] == rlo[x]); assert(!nr.contains_key(x)) by { if nr.contains_key(x) { assert(lr.contains_key(x) || rhi.contains_key(x)); } } }
        else if x > k { assert(rhi.contains_key(x)); assert(!lr.contains_key(x)); assert(nr[x] == rhi[x]); assert(nr.contains_key(x)); }
    }
    assert forall|x: u32| lm.contains_key(x) && rm.contains_key(x) implies #[trigger] merged_by(x, lm[x], rm[x], res[x], ph) by {
        if x < k { assert(rlo.contains_key(x)); assert(ll.contains_key(x)); assert(!nr.contains_key(x)) by { if nr.contains_key(x) { assert(lr.contains_key(x) || rhi.contains_key(x)); } }
            assert(nl.contains_key(x)); assert(res[x] == nl[x]);
            assert(merged_by(x, ll[x], rlo[x], nl[x], ph)); }
        else if x > k { assert(rhi.contains_key(x)); assert(lr.contains_key(x)); assert(nr.contains_key(x)); assert(res[x] == nr[x]);
            assert(merged_by(x, lr[x], rhi[x], nr[x], ph)); }
        else { assert(merged_by(k, lv, rm[k], nv, ph)); }
    }
}

}
fn main() {}
