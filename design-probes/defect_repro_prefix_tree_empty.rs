use eqlog_runtime::*;
fn main() {
    let mut t = PrefixTree2::new();
    t.insert([1, 2]);
    let mut r = PrefixTree1::new();
    r.insert([2]);
    t.remove_restriction(1, &r);
    println!("after remove_restriction: iter.count={} is_empty={} get(1).is_some={}", t.iter().count(), t.is_empty(), t.get(1).is_some());

    let mut t = PrefixTree2::new();
    t.insert_restriction(5, PrefixTree1::new());
    println!("after insert_restriction(empty): iter.count={} is_empty={}", t.iter().count(), t.is_empty());

    // mapped producing empty inner
    let mut t = PrefixTree3::new();
    t.insert([1, 2, 3]);
    let m1 = PrefixTree2::new(); // empty map on column 1 => filters everything
    let mapped = t.mapped(None, Some(m1), None);
    println!("mapped: iter.count={} is_empty={}", mapped.iter().count(), mapped.is_empty());

    // union of a tree containing an empty subtree
    let mut a = PrefixTree2::new(); a.insert([1,2]); a.remove_restriction(1, &r);
    let b = PrefixTree2::new();
    let d = a.difference(&b);
    println!("difference keeps empty entry: is_empty={} count={}", d.is_empty(), d.iter().count());
}
