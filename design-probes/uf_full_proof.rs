use vstd::prelude::*;
use vstd::std_specs::convert::*;
use vstd::std_specs::cmp::PartialEqSpec;
verus! {

global size_of usize == 8;

pub struct Unification<T> {
    parents: Vec<T>,
    sizes: Vec<u32>,
}

pub open spec fn ix<T: Into<u32>>(el: T) -> int { IntoSpec::<u32>::into_spec(el) as int }
pub open spec fn el_of<T: From<u32>>(i: int) -> T { FromSpec::<u32>::from_spec(i as u32) }

// Assumptions about the element type T (hold for every generated newtype `struct X(pub u32)`).
pub open spec fn t_laws<T: Copy + PartialEq + From<u32> + Into<u32>>() -> bool {
    &&& <T as IntoSpec<u32>>::obeys_into_spec()
    &&& <T as FromSpec<u32>>::obeys_from_spec()
    &&& T::obeys_eq_spec()
    &&& forall|a: T, b: T| #[trigger] a.eq_spec(&b) == (a == b)
    &&& forall|a: T| #[trigger] el_of::<T>(ix(a)) == a
    &&& forall|i: u32| ix(#[trigger] el_of::<T>(i as int)) == i as int
}

// p: parent pointers as indices. rank witnesses acyclicity: every non-root has a parent of strictly larger rank.
pub open spec fn ranked(p: Seq<int>, rank: Seq<nat>, b: nat) -> bool {
    &&& rank.len() == p.len()
    &&& forall|i: int| 0 <= i < p.len() ==> 0 <= #[trigger] p[i] < p.len()
    &&& forall|i: int| 0 <= i < p.len() ==> #[trigger] rank[i] <= b
    &&& forall|i: int| 0 <= i < p.len() && p[i] != i ==> rank[i] < #[trigger] rank[p[i]]
}

pub open spec fn forest(p: Seq<int>) -> bool { exists|rank: Seq<nat>, b: nat| ranked(p, rank, b) }

pub open spec fn root_w(p: Seq<int>, rank: Seq<nat>, b: nat, i: int) -> int
    decreases b - rank[i]
{
    if ranked(p, rank, b) && 0 <= i < p.len() && p[i] != i { root_w(p, rank, b, p[i]) } else { i }
}

/// The root of i: defined through an arbitrary rank witness; lemma_root_indep shows it does not depend on the witness.
pub open spec fn root_of(p: Seq<int>, i: int) -> int {
    let (rank, b) = choose|rank: Seq<nat>, b: nat| ranked(p, rank, b);
    root_w(p, rank, b, i)
}

pub proof fn lemma_root_w_props(p: Seq<int>, rank: Seq<nat>, b: nat, i: int)
    requires ranked(p, rank, b), 0 <= i < p.len()
    ensures 0 <= root_w(p, rank, b, i) < p.len(), p[root_w(p, rank, b, i)] == root_w(p, rank, b, i),
            root_w(p, rank, b, p[i]) == root_w(p, rank, b, i),
            rank[i] <= rank[root_w(p, rank, b, i)],
    decreases b - rank[i]
{
    if p[i] != i { lemma_root_w_props(p, rank, b, p[i]); }
}

pub proof fn lemma_root_indep(p: Seq<int>, r1: Seq<nat>, b1: nat, r2: Seq<nat>, b2: nat, i: int)
    requires ranked(p, r1, b1), ranked(p, r2, b2), 0 <= i < p.len()
    ensures root_w(p, r1, b1, i) == root_w(p, r2, b2, i)
    decreases b1 - r1[i]
{
    if p[i] != i { lemma_root_indep(p, r1, b1, r2, b2, p[i]); }
}

pub proof fn lemma_root_of(p: Seq<int>, rank: Seq<nat>, b: nat, i: int)
    requires ranked(p, rank, b), 0 <= i < p.len()
    ensures root_of(p, i) == root_w(p, rank, b, i),
        0 <= root_of(p, i) < p.len(), p[root_of(p, i)] == root_of(p, i),
        root_of(p, p[i]) == root_of(p, i),
        p[i] == i ==> root_of(p, i) == i,
{
    let (r2, b2) = choose|rank: Seq<nat>, b: nat| ranked(p, rank, b);
    lemma_root_indep(p, r2, b2, rank, b, i);
    lemma_root_indep(p, r2, b2, rank, b, p[i]);
    lemma_root_w_props(p, rank, b, i);
}

pub proof fn lemma_compress(p: Seq<int>, rank: Seq<nat>, b: nat, x: int, i: int)
    requires ranked(p, rank, b), 0 <= x < p.len(), 0 <= i < p.len()
    ensures ranked(p.update(x, p[p[x]]), rank, b),
        root_w(p.update(x, p[p[x]]), rank, b, i) == root_w(p, rank, b, i)
    decreases b - rank[i]
{
    let p2 = p.update(x, p[p[x]]);
    assert(ranked(p2, rank, b)) by {
        assert forall|j: int| 0 <= j < p2.len() && p2[j] != j implies rank[j] < #[trigger] rank[p2[j]] by {
            if j == x { assert(p[x] != x); assert(rank[x] < rank[p[x]]); if p[p[x]] != p[x] { assert(rank[p[x]] < rank[p[p[x]]]); } }
        }
    }
    if p[i] != i {
        lemma_compress(p, rank, b, x, p[i]);
        if i == x {
            if p[p[x]] != p[x] { lemma_compress(p, rank, b, x, p[p[x]]); } else { }
            lemma_root_w_props(p, rank, b, p[x]);
        }
    }
}

pub proof fn lemma_union(p: Seq<int>, rank: Seq<nat>, b: nat, l: int, r: int, i: int)
    requires ranked(p, rank, b), 0 <= l < p.len(), 0 <= r < p.len(), p[l] == l, p[r] == r, 0 <= i < p.len()
    ensures
        ({ let rank2 = if l == r { rank } else { rank.update(r, (if rank[r] > rank[l] { rank[r] } else { rank[l] + 1 }) as nat) };
           let p2 = p.update(l, r);
           &&& ranked(p2, rank2, b + 1)
           &&& root_w(p2, rank2, b + 1, i) == (if root_w(p, rank, b, i) == l { r } else { root_w(p, rank, b, i) }) })
    decreases b - rank[i]
{
    let rank2 = if l == r { rank } else { rank.update(r, (if rank[r] > rank[l] { rank[r] } else { rank[l] + 1 }) as nat) };
    let p2 = p.update(l, r);
    assert(ranked(p2, rank2, b + 1)) by {
        assert forall|j: int| 0 <= j < p2.len() && p2[j] != j implies rank2[j] < #[trigger] rank2[p2[j]] by {
            if j != l { assert(rank[j] < rank[p[j]]); }
        }
    }
    if p[i] != i {
        lemma_union(p, rank, b, l, r, p[i]);
        assert(p2[i] == p[i]);
    } else {
        assert(root_w(p2, rank2, b + 1, r) == r);
        if i == l && l != r { assert(p2[l] == r); assert(root_w(p2, rank2, b + 1, l) == root_w(p2, rank2, b + 1, r)); }
    }
}

impl<T: Copy + PartialEq + From<u32> + Into<u32>> Unification<T> {
    pub closed spec fn pseq(&self) -> Seq<int> { Seq::new(self.parents@.len(), |i: int| ix(self.parents@[i])) }
    pub closed spec fn wf(&self) -> bool { t_laws::<T>() && forest(self.pseq()) && self.parents@.len() < u32::MAX }
    pub open spec fn spec_len(&self) -> int { self.pseq().len() as int }
    /// class representative of el in the current state
    pub open spec fn rep(&self, i: int) -> int { root_of(self.pseq(), i) }

    pub fn new() -> (r: Self)
        requires t_laws::<T>()
        ensures r.wf(), r.spec_len() == 0
    {
        let r = Unification {
            parents: Vec::new(),
            sizes: Vec::new(),
        };
        proof { assert(ranked(r.pseq(), Seq::<nat>::empty(), 0)); }
        r
    }

    pub fn len(&self) -> (r: usize) ensures r == self.spec_len() {
        self.parents.len()
    }

    pub fn root_const(&self, mut el: T) -> (r: T)
        requires self.wf(), 0 <= ix(el) < self.spec_len()
        ensures ix(r) == self.rep(ix(el)), r == el_of::<T>(self.rep(ix(el))),
    {
        let ghost el0 = el;
        let ghost (rank, b) = choose|rank: Seq<nat>, b: nat| ranked(self.pseq(), rank, b);
        let mut parent = self.parents[el.into() as usize];
        proof { lemma_root_of(self.pseq(), rank, b, ix(el)); }
        while el != parent
            invariant self.wf(), ranked(self.pseq(), rank, b), 0 <= ix(el) < self.spec_len(),
                parent == self.parents@[ix(el)], self.rep(ix(el)) == self.rep(ix(el0)),
            decreases b - rank[ix(el)]
        {
            proof {
                assert(el_of::<T>(ix(el)) == el); assert(el_of::<T>(ix(parent)) == parent);
                assert(self.pseq()[ix(el)] == ix(parent));
            }
            el = parent;
            proof { lemma_root_of(self.pseq(), rank, b, ix(el)); }
            parent = self.parents[el.into() as usize];
        }
        proof { lemma_root_of(self.pseq(), rank, b, ix(el)); }
        el
    }

    pub fn root(&mut self, mut el: T) -> (r: T)
        requires old(self).wf(), 0 <= ix(el) < old(self).spec_len()
        ensures final(self).wf(), final(self).spec_len() == old(self).spec_len(),
            forall|i: int| 0 <= i < old(self).spec_len() ==> final(self).rep(i) == old(self).rep(i),
            ix(r) == old(self).rep(ix(el)), r == el_of::<T>(old(self).rep(ix(el))),
    {
        let ghost el0 = el;
        let ghost (rank, b) = choose|rank: Seq<nat>, b: nat| ranked(self.pseq(), rank, b);
        let mut parent = self.parents[el.into() as usize];
        proof { lemma_root_of(self.pseq(), rank, b, ix(el)); }
        while el != parent
            invariant self.wf(), ranked(self.pseq(), rank, b), 0 <= ix(el) < self.spec_len(),
                self.spec_len() == old(self).spec_len(),
                parent == self.parents@[ix(el)], self.rep(ix(el)) == old(self).rep(ix(el0)),
                forall|i: int| 0 <= i < old(self).spec_len() ==> self.rep(i) == old(self).rep(i),
            decreases b - rank[ix(el)]
        {
            proof {
                assert(el_of::<T>(ix(el)) == el); assert(el_of::<T>(ix(parent)) == parent);
                assert(self.pseq()[ix(el)] == ix(parent));
                lemma_root_of(self.pseq(), rank, b, ix(parent));
            }
            let ghost p_before = self.pseq();
            self.parents[el.into() as usize] = self.parents[parent.into() as usize];
            proof {
                assert(self.pseq() =~= p_before.update(ix(el), p_before[p_before[ix(el)]]));
                assert forall|i: int| 0 <= i < old(self).spec_len() implies self.rep(i) == old(self).rep(i) by {
                    lemma_compress(p_before, rank, b, ix(el), i);
                    lemma_root_of(p_before, rank, b, i);
                    lemma_root_of(self.pseq(), rank, b, i);
                }
                lemma_compress(p_before, rank, b, ix(el), ix(parent));
            }
            el = parent;
            proof { lemma_root_of(self.pseq(), rank, b, ix(el)); }
            parent = self.parents[parent.into() as usize];
        }
        proof { lemma_root_of(self.pseq(), rank, b, ix(el)); }
        el
    }

    pub fn union_roots_into(&mut self, lhs: T, rhs: T)
        requires old(self).wf(), 0 <= ix(lhs) < old(self).spec_len(), 0 <= ix(rhs) < old(self).spec_len(),
            old(self).rep(ix(lhs)) == ix(lhs), old(self).rep(ix(rhs)) == ix(rhs),
        ensures final(self).wf(), final(self).spec_len() == old(self).spec_len(),
            forall|i: int| 0 <= i < old(self).spec_len() ==>
                final(self).rep(i) == (if old(self).rep(i) == ix(lhs) { ix(rhs) } else { old(self).rep(i) }),
    {
        assert(el_of::<T>(ix(lhs)) == lhs); assert(el_of::<T>(ix(rhs)) == rhs);
        assert!(lhs == self.root(lhs));
        assert!(rhs == self.root(rhs));
        let ghost p_before = self.pseq();
        let ghost (rank, b) = choose|rank: Seq<nat>, b: nat| ranked(self.pseq(), rank, b);
        proof { lemma_root_of(p_before, rank, b, ix(lhs)); lemma_root_of(p_before, rank, b, ix(rhs)); }
        self.parents[lhs.into() as usize] = rhs;
        proof {
            assert(self.pseq() =~= p_before.update(ix(lhs), ix(rhs)));
            let l = ix(lhs); let r = ix(rhs);
            let rank2 = if l == r { rank } else { rank.update(r, (if rank[r] > rank[l] { rank[r] } else { rank[l] + 1 }) as nat) };
            lemma_union(p_before, rank, b, l, r, l);
            assert forall|i: int| 0 <= i < old(self).spec_len() implies
                self.rep(i) == (if old(self).rep(i) == ix(lhs) { ix(rhs) } else { old(self).rep(i) }) by {
                lemma_union(p_before, rank, b, l, r, i);
                lemma_root_of(self.pseq(), rank2, b + 1, i);
                lemma_root_of(p_before, rank, b, i);
            }
        }
    }

    pub fn increase_size_to(&mut self, new_size: usize)
        requires old(self).wf(), new_size >= old(self).spec_len(), (u32::MAX as usize) > new_size,
        ensures final(self).wf(), final(self).spec_len() == new_size,
            forall|i: int| 0 <= i < old(self).spec_len() ==> final(self).rep(i) == old(self).rep(i),
            forall|i: int| old(self).spec_len() <= i < new_size ==> final(self).rep(i) == i,
    {
        assert!(new_size >= self.len());
        assert!((u32::MAX as usize) > new_size);
        for i in self.len()..new_size
            invariant self.wf(), self.spec_len() == i, old(self).spec_len() <= i <= new_size, (u32::MAX as usize) > new_size,
                forall|j: int| 0 <= j < old(self).spec_len() ==> self.rep(j) == old(self).rep(j),
                forall|j: int| old(self).spec_len() <= j < i ==> self.rep(j) == j,
        {
            let ghost p_before = self.pseq();
            let ghost (rank, b) = choose|rank: Seq<nat>, b: nat| ranked(self.pseq(), rank, b);
            assert(forall|j: int| old(self).spec_len() <= j < i ==> self.rep(j) == j);
            assert forall|j: int| old(self).spec_len() <= j < i implies #[trigger] root_of(p_before, j) == j by { assert(self.rep(j) == j); }
            assert forall|j: int| 0 <= j < old(self).spec_len() implies #[trigger] root_of(p_before, j) == old(self).rep(j) by { assert(self.rep(j) == old(self).rep(j)); }
            self.parents.push(T::from(i as u32));
            proof {
                assert(ix(el_of::<T>((i as u32) as int)) == i);
                assert(self.pseq() =~= p_before.push(i as int));
                let rank2 = rank.push(0);
                assert(ranked(self.pseq(), rank2, b));
                assert forall|j: int| 0 <= j < i implies self.rep(j) == root_of(p_before, j) by {
                    lemma_push(p_before, rank, b, j);
                    lemma_root_of(self.pseq(), rank2, b, j);
                    lemma_root_of(p_before, rank, b, j);
                }
                assert(self.pseq()[i as int] == i);
                lemma_root_of(self.pseq(), rank2, b, i as int);
                assert(self.rep(i as int) == i);
                assert forall|j: int| old(self).spec_len() <= j < i + 1 implies self.rep(j) == j by {
                    if j < i { assert(self.rep(j) == root_of(p_before, j)); assert(root_of(p_before, j) == j); }
                }
                assert forall|j: int| 0 <= j < old(self).spec_len() implies self.rep(j) == old(self).rep(j) by {
                    assert(self.rep(j) == root_of(p_before, j)); assert(root_of(p_before, j) == old(self).rep(j));
                }
            }
        }
    }
}

pub proof fn lemma_push(p: Seq<int>, rank: Seq<nat>, b: nat, j: int)
    requires ranked(p, rank, b), 0 <= j < p.len()
    ensures ranked(p.push(p.len() as int), rank.push(0), b),
        root_w(p.push(p.len() as int), rank.push(0), b, j) == root_w(p, rank, b, j)
    decreases b - rank[j]
{
    if p[j] != j { lemma_push(p, rank, b, p[j]); }
}

} // verus!
fn main() {}
