#![allow(unused_imports)]
use vstd::prelude::*;
use vstd::std_specs::iter::IteratorSpec;
verus! {

#[verifier::external_body]
pub struct PrefixTree2 { x: u32 }

pub open spec fn lex_sorted(s: Seq<[u32; 2]>) -> bool {
    forall|i: int, j: int| 0 <= i < j < s.len() ==> (s[i][0] < s[j][0] || (s[i][0] == s[j][0] && s[i][1] < s[j][1]))
}

impl PrefixTree2 {
    pub uninterp spec fn view(&self) -> Set<Seq<u32>>;
    #[verifier::external_body]
    pub fn insert(&mut self, t: [u32; 2]) -> (b: bool) ensures final(self)@ == old(self)@.insert(t@), b == !old(self)@.contains(t@) { unimplemented!() }
    #[verifier::external_body]
    pub fn clear(&mut self) ensures final(self)@ == Set::<Seq<u32>>::empty() { unimplemented!() }
    #[verifier::external_body]
    pub fn iter(&self) -> (it: impl Iterator<Item = [u32; 2]> + '_)
        ensures it.obeys_prophetic_iter_laws(), it.will_return_none(), it.decrease() is Some,
            lex_sorted(it.remaining()),
            forall|t: Seq<u32>| self@.contains(t) <==> exists|i: int| 0 <= i < it.remaining().len() && #[trigger] it.remaining()[i]@ == t,
    { Vec::<[u32; 2]>::new().into_iter() }
}

pub struct M {
    edge_new_order_0_1: PrefixTree2,
    edge_old_order_0_1: PrefixTree2,
    edge_new_order_1_0: PrefixTree2,
    edge_old_order_1_0: PrefixTree2,
    empty_join_is_dirty: bool,
}

impl M {
    pub closed spec fn new01(&self) -> Set<Seq<u32>> { self.edge_new_order_0_1@ }
    pub closed spec fn old01(&self) -> Set<Seq<u32>> { self.edge_old_order_0_1@ }

fn move_new_to_old(&mut self)
    ensures final(self).old01() =~= old(self).old01().union(old(self).new01()),
        final(self).new01() =~= Set::<Seq<u32>>::empty(),
{
self.empty_join_is_dirty = false;

for p__ in gi: self.edge_new_order_0_1.iter()
    invariant gi.iter.obeys_prophetic_iter_laws(),
        self.edge_new_order_0_1@ == old(self).edge_new_order_0_1@,
        forall|t: Seq<u32>| #[trigger] self.edge_old_order_0_1@.contains(t) <==> (old(self).edge_old_order_0_1@.contains(t) || exists|i: int| 0 <= i < gi.index@ && #[trigger] gi.seq()[i]@ == t),
{ let el0 = p__[0]; let el1 = p__[1];
let ghost before = self.edge_old_order_0_1@;
self.edge_old_order_0_1.insert([el0, el1]);
proof {
    assert([el0, el1]@ =~= p__@);
    assert(gi.seq()[gi.index@] == p__);
    assert forall|t: Seq<u32>| #[trigger] self.edge_old_order_0_1@.contains(t) <==> (old(self).edge_old_order_0_1@.contains(t) || exists|i: int| 0 <= i < gi.index@ + 1 && #[trigger] gi.seq()[i]@ == t) by {
        if before.contains(t) { if !old(self).edge_old_order_0_1@.contains(t) { let i = choose|i: int| 0 <= i < gi.index@ && #[trigger] gi.seq()[i]@ == t; assert(0 <= i < gi.index@ + 1); } }
        if t == p__@ { assert(gi.seq()[gi.index@]@ == t); }
        if exists|i: int| 0 <= i < gi.index@ + 1 && #[trigger] gi.seq()[i]@ == t {
            let i = choose|i: int| 0 <= i < gi.index@ + 1 && #[trigger] gi.seq()[i]@ == t;
            if i < gi.index@ { assert(before.contains(t)); }
        }
    }
}

self.edge_old_order_1_0.insert([el1, el0]);

}
self.edge_new_order_0_1.clear();
self.edge_new_order_1_0.clear();
}
}

} // verus!
fn main() {}
