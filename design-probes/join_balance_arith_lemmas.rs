use vstd::prelude::*;
verus! {
pub open spec fn wbal(l: nat, r: nat) -> bool {
    l + r < 2 || ((r + 1) <= 3 * (l + 1) && (l + 1) <= 3 * (r + 1))
}
// join(l,k,r) with r > 3l: r = (rl, rr); J = join(l,k,rl) has size l+rl+1 and root split (a,b) (if non-empty it is: size>=1 always)
// T = (J, rr). Show: T not right-heavy; if left-heavy then single/double rotation (gamma = 2) gives balanced result.
pub proof fn join_r_not_right_heavy(l: nat, rl: nat, rr: nat)
    requires wbal(rl, rr), rl + rr + 1 > 3 * l
    ensures !((rr + 1) > 3 * ((l + rl + 1) + 1))
{}
pub proof fn join_r_no_rotation(l: nat, rl: nat, rr: nat)
    requires wbal(rl, rr), rl + rr + 1 > 3 * l, !(((l + rl + 1) + 1) > 3 * (rr + 1))
    ensures wbal(l + rl + 1, rr)
{}
pub proof fn join_r_single(l: nat, rl: nat, rr: nat, a: nat, b: nat)
    requires wbal(rl, rr), rl + rr + 1 > 3 * l, a + b + 1 == l + rl + 1, wbal(a, b),
        ((l + rl + 1) + 1) > 3 * (rr + 1), (l + rl + 1) + rr >= 2, b + 1 < 2 * (a + 1)
    ensures wbal(b, rr), wbal(a, b + rr + 1)
{}
pub proof fn join_r_double(l: nat, rl: nat, rr: nat, a: nat, b1: nat, b2: nat)
    requires wbal(rl, rr), rl + rr + 1 > 3 * l, a + (b1 + b2 + 1) + 1 == l + rl + 1, wbal(a, b1 + b2 + 1), wbal(b1, b2),
        ((l + rl + 1) + 1) > 3 * (rr + 1), (l + rl + 1) + rr >= 2, (b1 + b2 + 1) + 1 >= 2 * (a + 1)
    ensures wbal(a, b1), wbal(b2, rr), wbal(a + b1 + 1, b2 + rr + 1)
{}
// double case needs b non-empty
pub proof fn join_r_double_nonempty(l: nat, rl: nat, rr: nat, a: nat, b: nat)
    requires wbal(rl, rr), rl + rr + 1 > 3 * l, a + b + 1 == l + rl + 1, wbal(a, b),
        ((l + rl + 1) + 1) > 3 * (rr + 1), (l + rl + 1) + rr >= 2, b + 1 >= 2 * (a + 1)
    ensures b >= 1
{}
}
fn main() {}
