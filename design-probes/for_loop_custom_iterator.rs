use vstd::prelude::*;
use vstd::std_specs::iter::IteratorSpec;
verus! {

pub struct Iter<'a> { v: &'a Vec<u32>, pos: usize }

impl<'a> vstd::std_specs::iter::IteratorSpecImpl for Iter<'a> {
    closed spec fn obeys_prophetic_iter_laws(&self) -> bool { self.pos <= self.v@.len() }
    closed spec fn remaining(&self) -> Seq<u32> { self.v@.skip(self.pos as int) }
    closed spec fn will_return_none(&self) -> bool { true }
    closed spec fn decrease(&self) -> Option<nat> { Some((self.v@.len() - self.pos) as nat) }
    closed spec fn peek(&self, i: int) -> Option<u32> { if 0 <= i < self.v@.len() - self.pos { Some(self.v@[self.pos + i]) } else { None } }
}

impl<'a> Iterator for Iter<'a> {
    type Item = u32;
    fn next(&mut self) -> (r: Option<u32>) {
        if self.pos < self.v.len() { let x = self.v[self.pos]; self.pos = self.pos + 1; Some(x) } else { None }
    }
}

fn sum(v: &Vec<u32>) -> (s: u64)
{
    let mut s: u64 = 0;
    let it = Iter { v, pos: 0 };
    for x in gi: it
        invariant gi.iter.obeys_prophetic_iter_laws(),
    {
        s = s.wrapping_add(x as u64);
    }
    s
}

} // verus!
fn main() {}
