#![allow(unused_imports)]
use vstd::prelude::*;
use vstd::std_specs::iter::IteratorSpec;
verus! {

#[verifier::external_type_specification]
#[verifier::external_body]
#[verifier::accept_recursive_types(I)]
pub struct ExCopied<I>(core::iter::Copied<I>);

pub assume_specification<'a, T: Copy + 'a> [<core::slice::Iter<'a, T> as Iterator>::copied] (it: core::slice::Iter<'a, T>) -> (r: core::iter::Copied<core::slice::Iter<'a, T>>)
    ensures r.obeys_prophetic_iter_laws() == it.obeys_prophetic_iter_laws(),
        r.will_return_none() == it.will_return_none(), r.decrease() == it.decrease(),
        r.remaining() == it.remaining().map_values(|x: &'a T| *x);

fn sum(v: &Vec<u32>) -> (s: u64)
{
    let mut s: u64 = 0;
    for x in gi: v.iter().copied()
        invariant gi.iter.obeys_prophetic_iter_laws(),
    {
        s = s.wrapping_add(x as u64);
    }
    s
}

} // verus!
fn main() {}
