use vstd::prelude::*;
use std::cmp::Ordering;
verus! {

#[derive(Copy, Clone, PartialEq, Eq, Debug, Hash, PartialOrd, Ord)]
pub enum QueryAge { New, Old, All }

#[derive(Clone, PartialEq, Eq, Debug, Hash, PartialOrd, Ord)]
pub struct FlatIfStmt { pub rel: u32, pub args: Vec<u32>, pub age: QueryAge }
#[derive(Clone, PartialEq, Eq, Debug, Hash, PartialOrd, Ord)]
pub struct FlatThenStmt { pub rel: u32, pub args: Vec<u32> }

#[derive(Clone, PartialEq, Eq, Debug, Hash, PartialOrd, Ord)]
pub struct FlatRule {
    pub name: String,
    pub premise: Vec<FlatIfStmt>,
    pub conclusion: Vec<FlatThenStmt>,
}

pub fn to_semi_naive(flat_rule: &FlatRule) -> Vec<FlatRule> {
    assert!(
        flat_rule
            .premise
            .iter()
            .all(|if_stmt| if_stmt.age == QueryAge::All),
        "to_semi_naive requires all premise statements to have QueryAge::All"
    );

    if flat_rule.premise.is_empty() {
        return vec![flat_rule.clone()];
    }

    let original_name = flat_rule.name.as_str();

    (0..flat_rule.premise.len())
        .map(|i| {
            let premise = flat_rule
                .premise
                .iter()
                .enumerate()
                .map(|p__| { let (j, stmt) = p__;
                    let age = match i.cmp(&j) {
                        Ordering::Less => QueryAge::Old,
                        Ordering::Equal => QueryAge::New,
                        Ordering::Greater => QueryAge::All,
                    };

                    FlatIfStmt {
                        age,
                        args: stmt.args.clone(),
                        rel: stmt.rel.clone(),
                    }
                })
                .collect();

            FlatRule {
                premise,
                conclusion: flat_rule.conclusion.clone(),
                name: format!("{original_name}_{}", i),
            }
        })
        .collect()
}

} // verus!
fn main() {}
