import sys, itertools, functools
sys.setrecursionlimit(10000)
DELTA=3; GAMMA=2
def sz(t): return 0 if t is None else t[0]
def mk(l,r): return (1+sz(l)+sz(r), l, r)
def balanced_node(l,r):
    ls,rs=sz(l),sz(r)
    if ls+rs<2: return True
    return not ((rs+1)>DELTA*(ls+1) or (ls+1)>DELTA*(rs+1))
def is_bal(t):
    if t is None: return True
    return balanced_node(t[1],t[2]) and is_bal(t[1]) and is_bal(t[2])
def rot_left(t):
    _,l,r=t
    if r is None: return t
    _,rl,rr=r
    return mk(mk(l,rl),rr)
def rot_right(t):
    _,l,r=t
    if l is None: return t
    _,ll,lr=l
    return mk(ll,mk(lr,r))
def balance(t):
    _,l,r=t
    ls,rs=sz(l),sz(r)
    if ls+rs<2: return t
    lw,rw=ls+1,rs+1
    if rw>DELTA*lw:
        _,rl,rr=r
        if sz(rl)+1 < GAMMA*(sz(rr)+1): return rot_left(t)
        return rot_left(mk(l,rot_right(r)))
    elif lw>DELTA*rw:
        _,ll,lr=l
        if sz(lr)+1 < GAMMA*(sz(ll)+1): return rot_right(t)
        return rot_right(mk(rot_left(l),r))
    return t
def join(l,r):
    ls,rs=sz(l),sz(r)
    if rs>DELTA*ls:
        _,rl,rr=r
        return balance(mk(join(l,rl),rr))
    elif ls>DELTA*rs:
        _,ll,lr=l
        return balance(mk(ll,join(lr,r)))
    return balance(mk(l,r))
@functools.lru_cache(None)
def shapes(n):
    if n==0: return (None,)
    out=[]
    for a in range(n):
        b=n-1-a
        if a+b>=2 and ((b+1)>DELTA*(a+1) or (a+1)>DELTA*(b+1)): continue
        for l in shapes(a):
            for r in shapes(b):
                out.append(mk(l,r))
    return tuple(out)
N=int(sys.argv[1])
tot=0;bad=0
for a in range(N+1):
    for b in range(N+1):
        for l in shapes(a):
            for r in shapes(b):
                t=join(l,r); tot+=1
                if sz(t)!=a+b+1 or not is_bal(t):
                    bad+=1
                    if bad<5: print("BAD",a,b,l,r,t)
print("shapes",[len(shapes(i)) for i in range(N+1)],"joins",tot,"bad",bad)
# remove_min / delete-like: balance after removing one from a side
def remove_min(t):
    _,l,r=t
    if l is None: return r
    return balance(mk(remove_min(l),r))
bad2=0
for n in range(1,N+1):
    for t in shapes(n):
        u=remove_min(t)
        if not is_bal(u): bad2+=1
print("remove_min bad",bad2)
