#![feature(allocator_api)]
#![feature(clone_to_uninit)]
#![feature(sized_hierarchy)]
use vstd::prelude::*;
use std::rc::Rc;
verus! {

pub assume_specification<T: std::marker::MetaSized + ?Sized, A: std::alloc::Allocator> [<std::rc::Rc<T, A> as std::convert::AsRef<T>>::as_ref] (r: &std::rc::Rc<T, A>) -> (o: &T)
    ensures o == &**r;

pub assume_specification<T: std::marker::MetaSized + ?Sized + std::clone::CloneToUninit, A: std::alloc::Allocator + Clone> [std::rc::Rc::<T, A>::make_mut] (r: &mut std::rc::Rc<T, A>) -> (o: &mut T)
    ensures &*o == &**old(r), &**final(r) == &*final(o);

pub assume_specification<T: Clone, A: std::alloc::Allocator> [std::rc::Rc::<T, A>::unwrap_or_clone] (r: std::rc::Rc<T, A>) -> (o: T)
    ensures o == *r;

fn test(mut x: Rc<u32>) -> (y: Rc<u32>)
    ensures *y == 5
{
    let a = *x.as_ref();
    let m = Rc::make_mut(&mut x);
    assert(*m == a);
    *m = 5;
    x
}

fn test2(x: Rc<u32>) -> (y: u32)
    ensures y == *x
{
    Rc::unwrap_or_clone(x)
}

} // verus!
fn main() {}
