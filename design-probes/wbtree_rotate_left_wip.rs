#![feature(allocator_api)]
#![feature(clone_to_uninit)]
#![feature(sized_hierarchy)]
#![allow(unused_imports)]
use vstd::prelude::*;
use std::rc::Rc;
use std::cmp::Ordering;
use std::mem;
verus! {

global size_of usize == 8;

pub assume_specification<T: std::marker::MetaSized + ?Sized, A: std::alloc::Allocator> [<std::rc::Rc<T, A> as std::convert::AsRef<T>>::as_ref] (r: &std::rc::Rc<T, A>) -> (o: &T)
    ensures o == &**r;
pub assume_specification<T: std::marker::MetaSized + ?Sized + std::clone::CloneToUninit, A: std::alloc::Allocator + Clone> [std::rc::Rc::<T, A>::make_mut] (r: &mut std::rc::Rc<T, A>) -> (o: &mut T)
    ensures &*o == &**old(r), &**final(r) == &*final(o);
pub assume_specification<T: Clone, A: std::alloc::Allocator> [std::rc::Rc::<T, A>::unwrap_or_clone] (r: std::rc::Rc<T, A>) -> (o: T)
    ensures o == *r;
pub assume_specification<T> [std::mem::replace] (dest: &mut T, src: T) -> (r: T)
    ensures r == *old(dest), *final(dest) == src;

pub assume_specification<T, U, F: FnOnce(T) -> U> [std::option::Option::<T>::map_or] (o: Option<T>, default: U, f: F) -> (r: U)
    requires o is Some ==> f.requires((o->0,)),
    ensures match o { None => r == default, Some(x) => f.ensures((x,), r) };

#[verifier::external_body]
pub struct PrefixTree2 { x: u32 }
impl Clone for PrefixTree2 {
    #[verifier::external_body]
    fn clone(&self) -> Self { unimplemented!() }
}

#[derive(Clone)]
pub struct DataNode<V: Clone> {
    pub key: u32,
    pub value: V,
    pub left: Option<Rc<Node<V>>>,
    pub right: Option<Rc<Node<V>>>,
    pub size: usize, // Total number of nodes in this subtree
}

#[derive(Clone)]
pub struct MappingNode<V: Clone> {
    pub mapping: PrefixTree2,
    pub child: Option<Rc<Node<V>>>,
}

#[derive(Clone)]
#[allow(dead_code)]
pub enum Node<V: Clone> {
    Data(DataNode<V>),
    Mapping(MappingNode<V>),
}

pub type Tree<V> = Option<Rc<Node<V>>>;

// ---------------- specification ----------------
pub open spec fn nsz<V: Clone>(t: Tree<V>) -> nat
    decreases t
{
    match t {
        None => 0,
        Some(rc) => match *rc {
            Node::Data(d) => 1 + nsz(d.left) + nsz(d.right),
            Node::Mapping(_) => 0,
        },
    }
}

/// mapping-free, keys strictly inside (lo, hi), BST ordered, cached sizes exact.
pub open spec fn bst<V: Clone>(t: Tree<V>, lo: int, hi: int) -> bool
    decreases t
{
    match t {
        None => true,
        Some(rc) => match *rc {
            Node::Data(d) => lo < d.key < hi && bst(d.left, lo, d.key as int) && bst(d.right, d.key as int, hi)
                && d.size == 1 + nsz(d.left) + nsz(d.right),
            Node::Mapping(_) => false,
        },
    }
}

pub open spec fn balanced_sizes(l: nat, r: nat) -> bool {
    l + r < 2 || ((r + 1) <= 3 * (l + 1) && (l + 1) <= 3 * (r + 1))
}

pub open spec fn bal<V: Clone>(t: Tree<V>) -> bool
    decreases t
{
    match t {
        None => true,
        Some(rc) => match *rc {
            Node::Data(d) => balanced_sizes(nsz(d.left), nsz(d.right)) && bal(d.left) && bal(d.right),
            Node::Mapping(_) => false,
        },
    }
}

pub open spec fn view<V: Clone>(t: Tree<V>) -> Map<u32, V>
    decreases t
{
    match t {
        None => Map::empty(),
        Some(rc) => match *rc {
            Node::Data(d) => view(d.left).union_prefer_right(view(d.right)).insert(d.key, d.value),
            Node::Mapping(_) => Map::empty(),
        },
    }
}

pub proof fn lemma_size_bound<V: Clone>(t: Tree<V>, lo: int, hi: int)
    requires bst(t, lo, hi)
    ensures nsz(t) <= (if hi - lo - 1 > 0 { hi - lo - 1 } else { 0 }),
    decreases t
{
    match t {
        None => {},
        Some(rc) => match *rc {
            Node::Data(d) => { lemma_size_bound(d.left, lo, d.key as int); lemma_size_bound(d.right, d.key as int, hi); },
            Node::Mapping(_) => {},
        },
    }
}

pub proof fn lemma_bst_widen<V: Clone>(t: Tree<V>, lo: int, hi: int, lo2: int, hi2: int)
    requires bst(t, lo, hi), lo2 <= lo, hi <= hi2
    ensures bst(t, lo2, hi2)
    decreases t
{
    match t {
        None => {},
        Some(rc) => match *rc {
            Node::Data(d) => { lemma_bst_widen(d.left, lo, d.key as int, lo2, d.key as int); lemma_bst_widen(d.right, d.key as int, hi, d.key as int, hi2); },
            Node::Mapping(_) => {},
        },
    }
}

pub proof fn lemma_view_dom<V: Clone>(t: Tree<V>, lo: int, hi: int)
    requires bst(t, lo, hi)
    ensures forall|k: u32| view(t).contains_key(k) ==> lo < k < hi,
    decreases t
{
    match t {
        None => {},
        Some(rc) => match *rc {
            Node::Data(d) => { lemma_view_dom(d.left, lo, d.key as int); lemma_view_dom(d.right, d.key as int, hi); },
            Node::Mapping(_) => {},
        },
    }
}

impl<V: Clone> DataNode<V> {
    fn update_size_internal(&mut self)
        requires exists|lo: int, hi: int| -1 <= lo && hi <= 0x1_0000_0000 && #[trigger] bst(old(self).left, lo, hi) ,
                 exists|lo: int, hi: int| -1 <= lo && hi <= 0x1_0000_0000 && #[trigger] bst(old(self).right, lo, hi),
        ensures final(self).size == 1 + nsz(old(self).left) + nsz(old(self).right),
            final(self).left == old(self).left, final(self).right == old(self).right,
            final(self).key == old(self).key, final(self).value == old(self).value,
    {
        proof {
            let (lo, hi) = choose|lo: int, hi: int| -1 <= lo && hi <= 0x1_0000_0000 && #[trigger] bst(self.left, lo, hi);
            lemma_size_bound(self.left, lo, hi);
            let (lo2, hi2) = choose|lo: int, hi: int| -1 <= lo && hi <= 0x1_0000_0000 && #[trigger] bst(self.right, lo, hi);
            lemma_size_bound(self.right, lo2, hi2);
        }
        self.size = 1 + Node::size(&self.left) + Node::size(&self.right);
    }
}

impl<V: Clone> Node<V> {
    fn size(node: &Option<Rc<Node<V>>>) -> (r: usize)
        requires exists|lo: int, hi: int| #[trigger] bst(*node, lo, hi),
        ensures r == nsz(*node),
        decreases *node,
    {
        node.as_ref().map_or(0, |n: &Rc<Node<V>>| -> (r: usize)
            requires **n is Data, ensures r == (**n)->Data_0.size,
          { match n.as_ref() {
            Node::Data(data_node) => data_node.size,
            Node::Mapping(mapping_node) => Self::size(&mapping_node.child),
        } })
    }
}


pub open spec fn node_left<V: Clone>(t: Tree<V>) -> Tree<V> {
    match t { Some(rc) => match *rc { Node::Data(d) => d.left, _ => None }, None => None }
}
pub open spec fn node_right<V: Clone>(t: Tree<V>) -> Tree<V> {
    match t { Some(rc) => match *rc { Node::Data(d) => d.right, _ => None }, None => None }
}
impl<V: Clone> Node<V> {
    /// Rotate left around a data node. For mapping nodes, this is a no-op.
    fn rotate_left(mut node: Rc<Node<V>>, Ghost(lo): Ghost<int>, Ghost(hi): Ghost<int>) -> (res: Rc<Node<V>>)
        requires -1 <= lo, hi <= 0x1_0000_0000, bst(Some(node), lo, hi),
            node_right(Some(node)) is Some,
        ensures bst(Some(res), lo, hi), view(Some(res)) == view(Some(node)), nsz(Some(res)) == nsz(Some(node)),
            // shape: res = Node(rkey, Node(key, l, rl), rr)
            node_right(Some(res)) == node_right(node_right(Some(node))),
            node_left(node_left(Some(res))) == node_left(Some(node)),
            node_right(node_left(Some(res))) == node_left(node_right(Some(node))),
    {
        // Only rotate data nodes
        let is_data = matches!(node.as_ref(), Node::Data(_));
        if !is_data {
            return node;
        }

        let node_mut = Rc::make_mut(&mut node);
        let data_node = match node_mut {
            Node::Data(d) => d,
            Node::Mapping(_) => return node,
        };

        let mut right = match data_node.right.take() {
            Some(r) => r,
            None => return node, // Can't rotate without right child
        };

        // Check if right child is a data node
        let right_is_data = matches!(right.as_ref(), Node::Data(_));
        if !right_is_data {
            // Put right back and return without rotating
            data_node.right = Some(right);
            return node;
        }

        let right_mut = Rc::make_mut(&mut right);
        let right_data = match right_mut {
            Node::Data(d) => d,
            Node::Mapping(_) => {
                data_node.right = Some(right);
                return node;
            }
        };

        data_node.right = right_data.left.take();
        data_node.update_size_internal();
        right_data.left = Some(node);
        right_data.update_size_internal();

        right
    }
}
} // verus!
fn main() {}
