#[allow(unused)]
mod diag { include!("out/diag.eql.rs"); }
use diag::*;
fn main() {
    // 1. soundness of diagonal index
    let mut m = Diag::new();
    let a = m.new_el(); let b = m.new_el();
    m.insert_r(a, a, b);
    m.close();
    println!("r(a,a,b) only: p(a) = {} (expected false)", m.p(a));

    // 2. close_until early return then close: pending func defs lost?
    let mut m = Diag::new();
    let a = m.new_el();
    m.insert_q(a);
    let r = m.close_until(|m| m.q(a));
    println!("close_until returned {r}; f(a) defined = {}", m.f(a).is_some());
    m.close();
    println!("after close: f(a) defined = {} (expected true)", m.f(a).is_some());
    let mut m2 = Diag::new();
    let a2 = m2.new_el();
    m2.insert_q(a2);
    m2.close();
    println!("direct close: f(a) defined = {}", m2.f(a2).is_some());

    // 2b. early return after first iteration
    let mut m = Diag::new();
    let a = m.new_el();
    m.insert_q(a);
    let cnt = std::cell::Cell::new(0);
    let r = m.close_until(|_m| { cnt.set(cnt.get()+1); cnt.get() >= 2 });
    println!("close_until(2nd eval) returned {r}; f(a) defined = {}", m.f(a).is_some());
    m.close();
    println!("after close: f(a) defined = {} (expected true)", m.f(a).is_some());
}
