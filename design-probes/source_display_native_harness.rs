#![allow(dead_code)]
mod grammar_util {
    use std::cmp::{max, min};
#[derive(Clone, Copy, PartialEq, Eq, PartialOrd, Ord, Hash, Debug)]
pub struct Location(pub usize, pub usize);

impl Location {
    pub fn is_empty(self) -> bool {
        self.0 == self.1
    }
    pub fn intersect(self, other: Self) -> Option<Self> {
        let begin = max(self.0, other.0);
        let end = min(self.1, other.1);
        if !self.is_empty() && !other.is_empty() {
            // For non-empty locations, we only consider non-empty intersections.
            if begin < end {
                Some(Location(begin, end))
            } else {
                None
            }
        } else {
            debug_assert!(self.is_empty() || other.is_empty());
            // We return a valid location also in cases where an empty location points to right
            // before or right after a non-empty location.
            if begin <= end {
                Some(Location(begin, end))
            } else {
                None
            }
        }
    }
}

}
#[path = "/repo/eqlog/src/source_display.rs"]
mod source_display;
fn whipe_comments(source: &str) -> String {
    let lines: Vec<String> = source
        .lines()
        .map(|line| {
            if let Some(i) = line.find("//") {
                let mut l = line[0..i].to_string();
                for _ in i..line.len() {
                    l.push(' ');
                }
                l
            } else {
                line.to_string()
            }
        })
        .collect();
    lines.join("\n")
}

use grammar_util::Location;
use source_display::SourceDisplay;
use std::panic;

fn check(src: &str, loc: Location) -> Result<(), String> {
    let s = src.to_string();
    let r = panic::catch_unwind(|| format!("{}", SourceDisplay { underlined: true, ..SourceDisplay::new(&s, loc) }));
    let out = match r { Ok(o) => o, Err(_) => return Err("panic".into()) };
    // every excerpt line must be a complete line of the input
    let lines: Vec<&str> = src.split('\n').map(|l| l.strip_suffix('\r').unwrap_or(l)).collect();
    for l in out.lines() {
        if let Some(pos) = l.find(" | ") {
            let (num, text) = (&l[..pos], &l[pos + 3..]);
            if let Ok(n) = num.trim().parse::<usize>() {
                if n == 0 || n > lines.len() || lines[n - 1] != text { return Err(format!("excerpt line {n} = {text:?} is not input line")); }
            }
        }
    }
    Ok(())
}

fn main() {
    let alphabet: [&str; 6] = ["a", " ", "/", "\n", "\r", "é"];
    let mut total = 0u64; let mut bad = 0u64; let mut first: Vec<String> = Vec::new();
    panic::set_hook(Box::new(|_| {}));
    let mut strings: Vec<String> = vec![String::new()];
    let mut frontier = vec![String::new()];
    for _ in 0..4 { let mut next = Vec::new(); for s in &frontier { for a in alphabet { let t = format!("{s}{a}"); next.push(t); } } strings.extend(next.iter().cloned()); frontier = next; }
    for s in &strings {
        let wiped = whipe_comments(s);
        let n = wiped.len();
        for b in 0..=n { for e in b..=n + 1 {
            if b == e { continue; } // callers never produce empty locations for primary errors
            total += 1;
            if let Err(m) = check(s, Location(b, e)) { bad += 1; if first.len() < 6 { first.push(format!("{s:?} {b}..{e}: {m}")); } }
        } }
    }
    println!("cases {total} bad {bad}"); for f in first { println!("  {f}"); }
}
