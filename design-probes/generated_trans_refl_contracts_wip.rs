#![feature(allocator_api)]
#![allow(unused_imports)]
use vstd::prelude::*;
use std::collections::BTreeMap;
verus! {

global size_of usize == 8;

#[verifier::external_type_specification]
#[verifier::external_body]
#[verifier::reject_recursive_types(K)]
#[verifier::reject_recursive_types(V)]
#[verifier::reject_recursive_types(A)]
pub struct ExBTreeEntry<'a, K: 'a, V: 'a, A: std::alloc::Allocator + Clone>(std::collections::btree_map::Entry<'a, K, V, A>);

pub assume_specification<'a, K: Ord, V, A: std::alloc::Allocator + Clone> [BTreeMap::<K, V, A>::entry] (m: &'a mut BTreeMap<K, V, A>, key: K) -> (e: std::collections::btree_map::Entry<'a, K, V, A>);
pub assume_specification<'a, K: Ord, V: Default, A: std::alloc::Allocator + Clone> [std::collections::btree_map::Entry::<'a, K, V, A>::or_default] (e: std::collections::btree_map::Entry<'a, K, V, A>) -> (v: &'a mut V);

// ---- contract-only declarations of the runtime (the contracts proved in the runtime units) ----
#[verifier::external_body]
pub struct PrefixTree1 { x: u32 }
#[verifier::external_body]
pub struct PrefixTree2 { x: u32 }
impl PrefixTree1 {
    pub uninterp spec fn view(&self) -> Set<Seq<u32>>;
    #[verifier::external_body]
    pub fn new() -> (r: Self) ensures r@ == Set::<Seq<u32>>::empty() { unimplemented!() }
    #[verifier::external_body]
    pub fn insert(&mut self, t: [u32; 1]) -> (b: bool) ensures final(self)@ == old(self)@.insert(t@), b == !old(self)@.contains(t@) { unimplemented!() }
    #[verifier::external_body]
    pub fn remove(&mut self, t: [u32; 1]) -> (b: bool) ensures final(self)@ == old(self)@.remove(t@), b == old(self)@.contains(t@) { unimplemented!() }
    #[verifier::external_body]
    pub fn contains(&self, t: [u32; 1]) -> (b: bool) ensures b == self@.contains(t@) { unimplemented!() }
    #[verifier::external_body]
    pub fn is_empty(&self) -> (b: bool) ensures b == (self@ == Set::<Seq<u32>>::empty()) { unimplemented!() }
}
impl PrefixTree2 {
    pub uninterp spec fn view(&self) -> Set<Seq<u32>>;
    #[verifier::external_body]
    pub fn new() -> (r: Self) ensures r@ == Set::<Seq<u32>>::empty() { unimplemented!() }
    #[verifier::external_body]
    pub fn insert(&mut self, t: [u32; 2]) -> (b: bool) ensures final(self)@ == old(self)@.insert(t@), b == !old(self)@.contains(t@) { unimplemented!() }
    #[verifier::external_body]
    pub fn remove(&mut self, t: [u32; 2]) -> (b: bool) ensures final(self)@ == old(self)@.remove(t@), b == old(self)@.contains(t@) { unimplemented!() }
    #[verifier::external_body]
    pub fn contains(&self, t: [u32; 2]) -> (b: bool) ensures b == self@.contains(t@) { unimplemented!() }
    #[verifier::external_body]
    pub fn is_empty(&self) -> (b: bool) ensures b == (self@ == Set::<Seq<u32>>::empty()) { unimplemented!() }
}

#[verifier::external_body]
#[verifier::accept_recursive_types(T)]
pub struct Unification<T> { x: core::marker::PhantomData<T> }
impl Unification<V> {
    pub uninterp spec fn spec_len(&self) -> int;
    pub uninterp spec fn rep(&self, i: int) -> int;
    pub uninterp spec fn wf(&self) -> bool;
    #[verifier::external_body]
    pub fn len(&self) -> (r: usize) ensures r == self.spec_len() { unimplemented!() }
    #[verifier::external_body]
    pub fn root_const(&self, el: V) -> (r: V)
        requires self.wf(), 0 <= el.0 < self.spec_len()
        ensures r.0 == self.rep(el.0 as int) { unimplemented!() }
    #[verifier::external_body]
    pub fn root(&mut self, el: V) -> (r: V)
        requires old(self).wf(), 0 <= el.0 < old(self).spec_len()
        ensures final(self).wf(), final(self).spec_len() == old(self).spec_len(),
            forall|i: int| 0 <= i < old(self).spec_len() ==> final(self).rep(i) == old(self).rep(i),
            r.0 == old(self).rep(el.0 as int) { unimplemented!() }
    #[verifier::external_body]
    pub fn union_roots_into(&mut self, lhs: V, rhs: V)
        requires old(self).wf(), 0 <= lhs.0 < old(self).spec_len(), 0 <= rhs.0 < old(self).spec_len(),
            old(self).rep(lhs.0 as int) == lhs.0, old(self).rep(rhs.0 as int) == rhs.0,
        ensures final(self).wf(), final(self).spec_len() == old(self).spec_len(),
            forall|i: int| 0 <= i < old(self).spec_len() ==>
                final(self).rep(i) == (if old(self).rep(i) == lhs.0 { rhs.0 as int } else { old(self).rep(i) }) { unimplemented!() }
}

// ---- generated text (verbatim) ----
#[allow(dead_code)]
#[derive(Copy, Clone, PartialEq, Eq, Debug, Hash, PartialOrd, Ord)]
pub struct V(pub u32);

#[allow(unused)]
const EDGE_WEIGHT: usize = 6;

pub struct TransRefl {
    edge_new_order_0_1: PrefixTree2,
edge_old_order_0_1: PrefixTree2,
edge_new_order_1_0: PrefixTree2,
edge_old_order_1_0: PrefixTree2,
v_new_order_0: PrefixTree1,
v_old_order_0: PrefixTree1,
    edge_v_element_index: BTreeMap<u32, Vec<[u32; 2]>>,
    v_equalities: Unification<V>,
v_weights: Vec<usize>,
v_uprooted: Vec<V>,

    empty_join_is_dirty: bool,
}

pub open spec fn swap2(s: Set<Seq<u32>>) -> Set<Seq<u32>> { s.map(|t: Seq<u32>| seq![t[1], t[0]]) }
pub open spec fn tup2(a: u32, b: u32) -> Seq<u32> { seq![a, b] }

impl TransRefl {
    pub closed spec fn n(&self) -> int { self.v_equalities.spec_len() }
    pub closed spec fn rep(&self, i: int) -> int { self.v_equalities.rep(i) }
    pub closed spec fn edges(&self) -> Set<Seq<u32>> { self.edge_new_order_0_1@.union(self.edge_old_order_0_1@) }
    pub closed spec fn f_edge_old_0_1(&self) -> Set<Seq<u32>> { self.edge_old_order_0_1@ }
    pub closed spec fn f_v_new(&self) -> Set<Seq<u32>> { self.v_new_order_0@ }
    pub closed spec fn f_v_old(&self) -> Set<Seq<u32>> { self.v_old_order_0@ }
    pub closed spec fn f_uprooted(&self) -> Seq<V> { self.v_uprooted@ }
    pub closed spec fn f_flag(&self) -> bool { self.empty_join_is_dirty }
    pub closed spec fn f_eq(&self) -> Unification<V> { self.v_equalities }
    pub closed spec fn inv(&self) -> bool {
        &&& self.v_equalities.wf()
        &&& self.v_weights@.len() == self.n()
        &&& 0 <= self.n() < u32::MAX
        &&& self.edge_new_order_1_0@ =~= swap2(self.edge_new_order_0_1@)
        &&& self.edge_old_order_1_0@ =~= swap2(self.edge_old_order_0_1@)
        &&& forall|t: Seq<u32>| #[trigger] self.edges().contains(t) ==> t.len() == 2 && t[0] < self.n() && t[1] < self.n()
        &&& forall|i: int| 0 <= i < self.n() ==> 0 <= #[trigger] self.rep(i) < self.n() && self.rep(self.rep(i)) == self.rep(i)
    }

pub fn root_v(&self, el: V) -> (r: V)
    requires self.inv(),
    ensures el.0 < self.n() ==> r.0 == self.rep(el.0 as int), el.0 >= self.n() ==> r == el,
{
    if el.0 as usize >= self.v_equalities.len() {
        el
    } else {
        self.v_equalities.root_const(el)
    }
}
pub fn are_equal_v(&self, lhs: V, rhs: V) -> (b: bool)
    requires self.inv(), lhs.0 < self.n(), rhs.0 < self.n(),
    ensures b == (self.rep(lhs.0 as int) == self.rep(rhs.0 as int)),
{
    self.root_v(lhs) == self.root_v(rhs)
}
pub fn equate_v(&mut self, mut lhs: V, mut rhs: V) {
    lhs = self.v_equalities.root(lhs);
    rhs = self.v_equalities.root(rhs);
    if lhs == rhs {
        return;
    }

    let lhs_weight = self.v_weights[lhs.0 as usize];
    let rhs_weight = self.v_weights[rhs.0 as usize];
    let (root, child) =
        if lhs_weight >= rhs_weight {
            (lhs, rhs)
        } else {
            (rhs, lhs)
        };

    self.v_equalities.union_roots_into(child, root);

    self.v_new_order_0.remove([child.0]);
    self.v_old_order_0.remove([child.0]);
    self.v_uprooted.push(child);
}
pub fn edge(&self, mut arg0: V, mut arg1: V) -> (b: bool)
    requires self.inv(), arg0.0 < self.n(), arg1.0 < self.n(),
    ensures b == self.edges().contains(tup2(self.rep(arg0.0 as int) as u32, self.rep(arg1.0 as int) as u32)),
{
arg0 = self.root_v(arg0);
arg1 = self.root_v(arg1);

false
|| (&self.edge_new_order_0_1).contains([arg0.0, arg1.0])
|| (&self.edge_old_order_0_1).contains([arg0.0, arg1.0])
}
pub fn insert_edge(&mut self, el0: V, el1: V)
    requires old(self).inv(), el0.0 < old(self).n(), el1.0 < old(self).n(),
    ensures final(self).inv(),
        final(self).edges() =~= old(self).edges().insert(tup2(old(self).rep(el0.0 as int) as u32, old(self).rep(el1.0 as int) as u32)),
        final(self).f_edge_old_0_1() == old(self).f_edge_old_0_1(),
        final(self).f_eq() == old(self).f_eq(),
        final(self).f_v_new() == old(self).f_v_new(), final(self).f_v_old() == old(self).f_v_old(),
        final(self).f_uprooted() == old(self).f_uprooted(), final(self).f_flag() == old(self).f_flag(),
{
    let el0: u32 = self.root_v(el0).0;
let el1: u32 = self.root_v(el1).0;

    if (&self.edge_new_order_0_1).contains([el0, el1]) {
return;
}

if (&self.edge_old_order_0_1).contains([el0, el1]) {
return;
}


    self.edge_new_order_0_1.insert([el0, el1]);

self.edge_new_order_1_0.insert([el1, el0]);


    if true  {
self.edge_v_element_index.entry(el0).or_default().push([el0, el1]);
}

if true && el1 != el0 {
self.edge_v_element_index.entry(el1).or_default().push([el0, el1]);
}


    let weight0: &mut usize = &mut self.v_weights[usize::try_from(el0).unwrap()];
*weight0 = weight0.saturating_add(EDGE_WEIGHT);

let weight1: &mut usize = &mut self.v_weights[usize::try_from(el1).unwrap()];
*weight1 = weight1.saturating_add(EDGE_WEIGHT);

}
fn is_dirty(&self) -> bool {
self.empty_join_is_dirty
|| !self.edge_new_order_0_1.is_empty()
|| !self.v_new_order_0.is_empty()
|| !self.v_uprooted.is_empty()
}
}

} // verus!
fn main() {}
