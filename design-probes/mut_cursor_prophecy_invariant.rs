use vstd::prelude::*;
verus! {

pub struct L { pub v: u32, pub next: Option<Box<L>> }

pub open spec fn len(l: Option<Box<L>>) -> nat decreases l { match l { None => 0, Some(b) => 1 + len(b.next) } }

// walk down a list with a &mut cursor and return a &mut to the n-th value
fn nth_mut(head: &mut Option<Box<L>>, n: usize) -> (r: Option<&mut u32>)
    ensures r is None ==> *final(head) == *old(head),
{
    let mut current = head;
    let mut i = 0;
    loop
        invariant *final(current) == *current ==> *final(head) == *old(head),
        decreases len(*current)
    {
        match current {
            None => return None,
            Some(b) => {
                if i == n { return Some(&mut b.v); }
                i = i + 1;
                current = &mut b.next;
            }
        }
    }
}

}
fn main() {}
