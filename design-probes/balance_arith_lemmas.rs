use vstd::prelude::*;
verus! {
pub open spec fn wbal(l: nat, r: nat) -> bool {
    l + r < 2 || ((r + 1) <= 3 * (l + 1) && (l + 1) <= 3 * (r + 1))
}
pub open spec fn near(l: nat, r: nat) -> bool {
    wbal(l, r) || (l > 0 && wbal((l - 1) as nat, r)) || wbal(l + 1, r) || (r > 0 && wbal(l, (r - 1) as nat)) || wbal(l, r + 1)
}
pub proof fn lemma_single_l(l: nat, rl: nat, rr: nat)
    requires near(l, rl + rr + 1), wbal(rl, rr), l + rl + rr + 1 >= 2, (rl + rr + 1) + 1 > 3 * (l + 1), rl + 1 < 2 * (rr + 1)
    ensures wbal(l, rl), wbal(l + rl + 1, rr)
{}
pub proof fn lemma_double_l(l: nat, rll: nat, rlr: nat, rr: nat)
    requires near(l, (rll + rlr + 1) + rr + 1), wbal(rll + rlr + 1, rr), wbal(rll, rlr),
        ((rll + rlr + 1) + rr + 1) + 1 > 3 * (l + 1), (rll + rlr + 1) + 1 >= 2 * (rr + 1)
    ensures wbal(l, rll), wbal(rlr, rr), wbal(l + rll + 1, rlr + rr + 1)
{}
// rl must be non-empty in the double case
pub proof fn lemma_double_l_nonempty(l: nat, rl: nat, rr: nat)
    requires l + rl + rr + 1 >= 2, (rl + rr + 1) + 1 > 3 * (l + 1), rl + 1 >= 2 * (rr + 1)
    ensures rl >= 1
{}
}
fn main() {}
