proof fn lemma_keys_lt_len<V: Clone>(t: Tree<V>) ensures true {}
/// b is a well-formed tree with the same keys/size as a and the same values except possibly at key k
spec fn okfin<V: Clone>(a: Tree<V>, b: Tree<V>, k: u32) -> bool {
    tb(b) && bal(b) && nsz(b) == nsz(a) && view(b).dom() =~= view(a).dom()
    && forall|x: u32| x != k && view(a).contains_key(x) ==> #[trigger] view(b)[x] == view(a)[x]
}


/// the number of nodes is the number of keys of the view
proof fn lemma_view_len<V: Clone>(t: Tree<V>, lo: int, hi: int)
    requires bst(t, lo, hi)
    ensures view(t).dom().finite(), view(t).dom().len() == nsz(t),
    decreases t
{
    match t {
        None => { assert(view(t).dom() =~= Set::<u32>::empty()); },
        Some(rc) => match *rc {
            Node::Data(d) => {
                lemma_view_len(d.left, lo, d.key as int); lemma_view_len(d.right, d.key as int, hi);
                lemma_view_dom(d.left, lo, d.key as int); lemma_view_dom(d.right, d.key as int, hi);
                let a = view(d.left).dom(); let b = view(d.right).dom();
                assert(a.disjoint(b)) by {
                    assert forall|x: u32| !(a.contains(x) && b.contains(x)) by {
                        if a.contains(x) && b.contains(x) { assert(view(d.left).contains_key(x)); assert(view(d.right).contains_key(x)); }
                    }
                }
                vstd::set_lib::lemma_set_disjoint_lens(a, b);
                assert(!(a + b).contains(d.key)) by {
                    if a.contains(d.key) { assert(view(d.left).contains_key(d.key)); }
                    if b.contains(d.key) { assert(view(d.right).contains_key(d.key)); }
                }
                assert(view(t).dom() =~= (a + b).insert(d.key));
            },
            Node::Mapping(_) => {},
        },
    }
}

proof fn lemma_empty_iff_none<V: Clone>(t: Tree<V>)
    requires tb(t)
    ensures (nsz(t) == 0) <==> (view(t).dom() =~= Set::<u32>::empty()), t is None <==> nsz(t) == 0,
{
    let (lo, hi) = choose|lo: int, hi: int| #[trigger] bst(t, lo, hi);
    lemma_view_len(t, lo, hi);
    if nsz(t) != 0 { assert(t is Some); assert(view(t).contains_key(dn(t).key)); }
    else { assert(view(t).dom().len() == 0); }
}

// ---- get_mut: a &mut cursor walks down through Rc::make_mut; what is written through the returned reference changes one value only

/// t2 is the data node t with its left (side == 0), right (side == 1) child or its value (side == 2) replaced
spec fn node_with<V: Clone>(t: Tree<V>, t2: Tree<V>, side: int, c: Tree<V>) -> bool {
    &&& is_data(t) && is_data(t2)
    &&& dn(t2).key == dn(t).key && dn(t2).size == dn(t).size
    &&& (side == 0 ==> dn(t2).left == c && dn(t2).right == dn(t).right && dn(t2).value == dn(t).value)
    &&& (side == 1 ==> dn(t2).right == c && dn(t2).left == dn(t).left && dn(t2).value == dn(t).value)
    &&& (side == 2 ==> dn(t2).left == dn(t).left && dn(t2).right == dn(t).right)
}

proof fn lemma_okfin_refl<V: Clone>(t: Tree<V>, k: u32)
    requires tb(t), bal(t)
    ensures okfin(t, t, k)
{}

/// replacing a child by a tree that is okfin-related to it gives a tree okfin-related to the parent
proof fn lemma_okfin_step<V: Clone>(t: Tree<V>, t2: Tree<V>, side: int, c: Tree<V>, k: u32)
    requires tb(t), bal(t), node_with(t, t2, side, c),
        side == 0 ==> k < dn(t).key && okfin(lft(t), c, k),
        side == 1 ==> k > dn(t).key && okfin(rgt(t), c, k),
        side == 2 ==> k == dn(t).key,
        side == 0 || side == 1 || side == 2,
    ensures okfin(t, t2, k),
        side == 0 && view(lft(t)).contains_key(k) ==> view(t2)[k] == view(c)[k],
        side == 1 && view(rgt(t)).contains_key(k) ==> view(t2)[k] == view(c)[k],
        side == 2 ==> view(t2)[k] == dn(t2).value,
        view(t).contains_key(k) == (if side == 0 { view(lft(t)).contains_key(k) } else if side == 1 { view(rgt(t)).contains_key(k) } else { true }),
        side == 0 && view(lft(t)).contains_key(k) ==> view(t)[k] == view(lft(t))[k],
        side == 1 && view(rgt(t)).contains_key(k) ==> view(t)[k] == view(rgt(t))[k],
        side == 2 ==> view(t)[k] == dn(t).value,
{
    let (lo, hi) = choose|lo: int, hi: int| #[trigger] bst(t, lo, hi);
    let key = dn(t).key;
    let l = lft(t); let r = rgt(t);
    assert(bst(l, lo, key as int)); assert(bst(r, key as int, hi));
    lemma_view_dom(l, lo, key as int); lemma_view_dom(r, key as int, hi);
    lemma_bal_unfold(t);
    assert(view(t) == view(l).union_prefer_right(view(r)).insert(key, dn(t).value));
    if side == 0 {
        assert(view(c).dom() =~= view(l).dom());
        assert forall|x: u32| #[trigger] view(c).contains_key(x) implies lo < x < key by { assert(view(l).contains_key(x)); }
        lemma_tb_bounds(c, lo, key as int);
        assert(bst(t2, lo, hi));
        assert(view(t2) == view(c).union_prefer_right(view(r)).insert(key, dn(t).value));
        assert(view(t2).dom() =~= view(t).dom());
        assert(!view(r).contains_key(k));
        assert forall|x: u32| x != k && view(t).contains_key(x) implies #[trigger] view(t2)[x] == view(t)[x] by {
            if view(l).contains_key(x) { assert(!view(r).contains_key(x)); assert(view(c)[x] == view(l)[x]); }
        }
        assert(bal(t2));
    } else if side == 1 {
        assert(view(c).dom() =~= view(r).dom());
        assert forall|x: u32| #[trigger] view(c).contains_key(x) implies key < x < hi by { assert(view(r).contains_key(x)); }
        lemma_tb_bounds(c, key as int, hi);
        assert(bst(t2, lo, hi));
        assert(view(t2) == view(l).union_prefer_right(view(c)).insert(key, dn(t).value));
        assert(view(t2).dom() =~= view(t).dom());
        assert(!view(l).contains_key(k));
        assert forall|x: u32| x != k && view(t).contains_key(x) implies #[trigger] view(t2)[x] == view(t)[x] by {
            if view(r).contains_key(x) { assert(view(c)[x] == view(r)[x]); }
        }
        assert(bal(t2));
    } else {
        assert(bst(t2, lo, hi));
        assert(view(t2) == view(l).union_prefer_right(view(r)).insert(key, dn(t2).value));
        assert(view(t2).dom() =~= view(t).dom());
        assert(bal(t2));
    }
}

// ---- C14 "height stays logarithmic": a consequence of the weight-balance invariant, for all trees
spec fn height<V: Clone>(t: Tree<V>) -> nat
    decreases t
{
    match t {
        None => 0,
        Some(rc) => match *rc {
            Node::Data(d) => 1 + (if height(d.left) >= height(d.right) { height(d.left) } else { height(d.right) }),
            Node::Mapping(_) => 0,
        },
    }
}
spec fn ipow(b: nat, e: nat) -> nat decreases e { if e == 0 { 1 } else { b * ipow(b, (e - 1) as nat) } }

/// 4^height(t) <= 3^height(t) * (size(t) + 1), i.e. height(t) <= log_{4/3}(size(t) + 1)
proof fn lemma_height_log<V: Clone>(t: Tree<V>)
    requires tb(t), bal(t)
    ensures ipow(4, height(t)) <= ipow(3, height(t)) * (nsz(t) + 1)
    decreases t
{
    lemma_bal_unfold(t);
    if t is Some {
        let l = lft(t); let r = rgt(t);
        lemma_height_log(l); lemma_height_log(r);
        let c = if height(l) >= height(r) { l } else { r };
        let h = height(c);
        assert(height(t) == h + 1);
        // the heavier-in-height child has at most 3/4 of the weight
        assert(4 * (nsz(c) + 1) <= 3 * (nsz(t) + 1)) by { reveal(wbal); }
        let a = ipow(4, h); let b = ipow(3, h); let wc = nsz(c) + 1; let wt = nsz(t) + 1;
        assert(a <= b * wc);
        assert(ipow(4, h + 1) == 4 * a);
        assert(ipow(3, h + 1) == 3 * b);
        assert(4 * a <= 3 * b * wt) by (nonlinear_arith) requires a <= b * wc, 4 * wc <= 3 * wt;
        assert(3 * b * wt == (3 * b) * wt) by (nonlinear_arith);
        assert(ipow(4, height(t)) <= ipow(3, height(t)) * (nsz(t) + 1));
    } else {
        assert(height(t) == 0 && nsz(t) == 0);
        assert(ipow(4, 0) == 1 && ipow(3, 0) == 1);
        let b = ipow(3, height(t)); let w = nsz(t) + 1;
        assert(b * w == 1) by (nonlinear_arith) requires b == 1, w == 1;
    }
}
