proof fn lemma_keys_lt_len<V: Clone>(t: Tree<V>) ensures true {}
/// b is a well-formed tree with the same keys/size as a and the same values except possibly at key k
spec fn okfin<V: Clone>(a: Tree<V>, b: Tree<V>, k: u32) -> bool {
    tb(b) && bal(b) && nsz(b) == nsz(a) && view(b).dom() =~= view(a).dom()
    && forall|x: u32| x != k && view(a).contains_key(x) ==> #[trigger] view(b)[x] == view(a)[x]
}

