proof fn lemma_keys_lt_len<V: Clone>(t: Tree<V>) ensures true {}
/// b is a well-formed tree with the same keys/size as a and the same values except possibly at key k
spec fn okfin<V: Clone>(a: Tree<V>, b: Tree<V>, k: u32) -> bool {
    tb(b) && bal(b) && nsz(b) == nsz(a) && view(b).dom() =~= view(a).dom()
    && forall|x: u32| x != k && view(a).contains_key(x) ==> #[trigger] view(b)[x] == view(a)[x]
}


/// the number of nodes is the number of keys of the view
proof fn lemma_view_len<V: Clone>(t: Tree<V>, lo: int, hi: int)
    requires bst(t, lo, hi)
    ensures view(t).dom().finite(), view(t).dom().len() == nsz(t),
    decreases t
{
    match t {
        None => { assert(view(t).dom() =~= Set::<u32>::empty()); },
        Some(rc) => match *rc {
            Node::Data(d) => {
                lemma_view_len(d.left, lo, d.key as int); lemma_view_len(d.right, d.key as int, hi);
                lemma_view_dom(d.left, lo, d.key as int); lemma_view_dom(d.right, d.key as int, hi);
                let a = view(d.left).dom(); let b = view(d.right).dom();
                assert(a.disjoint(b)) by {
                    assert forall|x: u32| !(a.contains(x) && b.contains(x)) by {
                        if a.contains(x) && b.contains(x) { assert(view(d.left).contains_key(x)); assert(view(d.right).contains_key(x)); }
                    }
                }
                vstd::set_lib::lemma_set_disjoint_lens(a, b);
                assert(!(a + b).contains(d.key)) by {
                    if a.contains(d.key) { assert(view(d.left).contains_key(d.key)); }
                    if b.contains(d.key) { assert(view(d.right).contains_key(d.key)); }
                }
                assert(view(t).dom() =~= (a + b).insert(d.key));
            },
            Node::Mapping(_) => {},
        },
    }
}

proof fn lemma_empty_iff_none<V: Clone>(t: Tree<V>)
    requires tb(t)
    ensures (nsz(t) == 0) <==> (view(t).dom() =~= Set::<u32>::empty()), t is None <==> nsz(t) == 0,
{
    let (lo, hi) = choose|lo: int, hi: int| #[trigger] bst(t, lo, hi);
    lemma_view_len(t, lo, hi);
    if nsz(t) != 0 { assert(t is Some); assert(view(t).contains_key(dn(t).key)); }
    else { assert(view(t).dom().len() == 0); }
}
