    // ghost accessors of Unification<T> (spliced into the real impl block)
    pub closed spec fn pseq(&self) -> Seq<int> { Seq::new(self.parents@.len(), |i: int| ix(self.parents@[i])) }
    pub closed spec fn wf(&self) -> bool { t_laws::<T>() && forest(self.pseq()) && self.parents@.len() < u32::MAX }
    pub open spec fn spec_len(&self) -> int { self.pseq().len() as int }
    /// class representative of element i in the current state
    pub open spec fn rep(&self, i: int) -> int { root_of(self.pseq(), i) }
    /// i ~ j
    pub open spec fn eqv(&self, i: int, j: int) -> bool { self.rep(i) == self.rep(j) }
