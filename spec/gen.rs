// Tuples as sequences, one constructor per arity (quantifier triggers cannot contain the seq! macro).
pub open spec fn tup0() -> Seq<u32> { Seq::<u32>::empty() }
pub open spec fn tup1(a0: u32) -> Seq<u32> { seq![a0] }
pub open spec fn tup2(a0: u32, a1: u32) -> Seq<u32> { seq![a0, a1] }
pub open spec fn tup3(a0: u32, a1: u32, a2: u32) -> Seq<u32> { seq![a0, a1, a2] }
pub open spec fn tup4(a0: u32, a1: u32, a2: u32, a3: u32) -> Seq<u32> { seq![a0, a1, a2, a3] }
pub open spec fn tup5(a0: u32, a1: u32, a2: u32, a3: u32, a4: u32) -> Seq<u32> { seq![a0, a1, a2, a3, a4] }
pub open spec fn tup6(a0: u32, a1: u32, a2: u32, a3: u32, a4: u32, a5: u32) -> Seq<u32> { seq![a0, a1, a2, a3, a4, a5] }
pub open spec fn tup7(a0: u32, a1: u32, a2: u32, a3: u32, a4: u32, a5: u32, a6: u32) -> Seq<u32> { seq![a0, a1, a2, a3, a4, a5, a6] }
pub open spec fn tup8(a0: u32, a1: u32, a2: u32, a3: u32, a4: u32, a5: u32, a6: u32, a7: u32) -> Seq<u32> { seq![a0, a1, a2, a3, a4, a5, a6, a7] }
pub open spec fn tup9(a0: u32, a1: u32, a2: u32, a3: u32, a4: u32, a5: u32, a6: u32, a7: u32, a8: u32) -> Seq<u32> { seq![a0, a1, a2, a3, a4, a5, a6, a7, a8] }
