proof fn lemma_tb_bounds_u32<V: Clone>(t: Tree<V>)
    requires tb(t)
    ensures bst(t, -1, 0x1_0000_0000), nsz(t) <= 0x1_0000_0000
{
    let (l0, h0) = choose|lo: int, hi: int| #[trigger] bst(t, lo, hi);
    lemma_bst_u32(t, l0, h0);
    lemma_bst_widen(t, if l0 < -1 { -1 } else { l0 }, if h0 > 0x1_0000_0000 { 0x1_0000_0000 } else { h0 }, -1, 0x1_0000_0000);
}
proof fn lemma_tb_bounds<V: Clone>(t: Tree<V>, lo: int, hi: int)
    requires tb(t), forall|k: u32| #[trigger] view(t).contains_key(k) ==> lo < k < hi
    ensures bst(t, lo, hi)
{
    let (l2, h2) = choose|l2: int, h2: int| #[trigger] bst(t, l2, h2);
    lemma_min_max(t, l2, h2, lo, hi);
}
/// the weight-balance facts that make the result of `balance` balanced, as a function of the sizes of the
/// subtrees it touches (mirrors the single/double choice of the code)
#[verifier::opaque]
spec fn rot_ok(l: nat, r: nat, rl: nat, rr: nat, rll: nat, rlr: nat, ll: nat, lr: nat, lrl: nat, lrr: nat) -> bool {
    if l + r < 2 { true }
    else if r + 1 > 3 * (l + 1) {
        if rl + 1 < 2 * (rr + 1) { wbal(l, rl) && wbal(l + rl + 1, rr) }
        else { wbal(l, rll) && wbal(rlr, rr) && wbal(l + rll + 1, rlr + rr + 1) }
    } else if l + 1 > 3 * (r + 1) {
        if lr + 1 < 2 * (ll + 1) { wbal(lr, r) && wbal(ll, lr + r + 1) }
        else { wbal(lrr, r) && wbal(ll, lrl) && wbal(ll + lrl + 1, lrr + r + 1) }
    } else { true }
}
spec fn rot_ok_t<V: Clone>(t: Tree<V>) -> bool {
    rot_ok(nsz(lft(t)), nsz(rgt(t)), nsz(lft(rgt(t))), nsz(rgt(rgt(t))), nsz(lft(lft(rgt(t)))), nsz(rgt(lft(rgt(t)))),
           nsz(lft(lft(t))), nsz(rgt(lft(t))), nsz(lft(rgt(lft(t)))), nsz(rgt(rgt(lft(t)))))
}
/// insertion / deletion of one element (Hirai-Yamamoto, <3,2> on weights)
proof fn lemma_near_rot_ok(l: nat, r: nat, rl: nat, rr: nat, rll: nat, rlr: nat, ll: nat, lr: nat, lrl: nat, lrr: nat)
    requires near(l, r),
        r > 0 ==> r == rl + rr + 1 && wbal(rl, rr), rl > 0 ==> rl == rll + rlr + 1 && wbal(rll, rlr),
        l > 0 ==> l == ll + lr + 1 && wbal(ll, lr), lr > 0 ==> lr == lrl + lrr + 1 && wbal(lrl, lrr),
    ensures rot_ok(l, r, rl, rr, rll, rlr, ll, lr, lrl, lrr)
{ reveal(near); reveal(rot_ok); }
proof fn lemma_near_rot_ok_t<V: Clone>(t: Tree<V>)
    requires tb(t), is_data(t), bal(lft(t)), bal(rgt(t)), near(nsz(lft(t)), nsz(rgt(t)))
    ensures rot_ok_t(t)
{
    let (lo, hi) = choose|lo: int, hi: int| #[trigger] bst(t, lo, hi);
    let l = lft(t); let r = rgt(t);
    assert(bst(l, lo, dn(t).key as int)); assert(bst(r, dn(t).key as int, hi));
    if r is Some { assert(is_data(r)); assert(bal(r) == (wbal(nsz(lft(r)), nsz(rgt(r))) && bal(lft(r)) && bal(rgt(r))));
        assert(bst(lft(r), dn(t).key as int, dn(r).key as int));
        let rl = lft(r); if rl is Some { assert(is_data(rl)); assert(bal(rl) == (wbal(nsz(lft(rl)), nsz(rgt(rl))) && bal(lft(rl)) && bal(rgt(rl)))); } else { assert(nsz(rl) == 0); } }
    else { assert(nsz(r) == 0); }
    if l is Some { assert(is_data(l)); assert(bal(l) == (wbal(nsz(lft(l)), nsz(rgt(l))) && bal(lft(l)) && bal(rgt(l))));
        assert(bst(rgt(l), dn(l).key as int, dn(t).key as int));
        let lr = rgt(l); if lr is Some { assert(is_data(lr)); assert(bal(lr) == (wbal(nsz(lft(lr)), nsz(rgt(lr))) && bal(lft(lr)) && bal(rgt(lr)))); } else { assert(nsz(lr) == 0); } }
    else { assert(nsz(l) == 0); }
    lemma_near_rot_ok(nsz(l), nsz(r), nsz(lft(r)), nsz(rgt(r)), nsz(lft(lft(r))), nsz(rgt(lft(r))), nsz(lft(l)), nsz(rgt(l)), nsz(lft(rgt(l))), nsz(rgt(rgt(l))));
}
/// join, right side heavy by sizes: T = (J, rr), J = join(l, k, rl) of size l+rl+1 with root split (a, b), b = (b1, b2)
proof fn lemma_join_r_rot_ok(l: nat, rl: nat, rr: nat, a: nat, b: nat, b1: nat, b2: nat, x1: nat, x2: nat, x3: nat, x4: nat)
    requires wbal(rl, rr), rl + rr + 1 > 3 * l, a + b + 1 == l + rl + 1, wbal(a, b), b > 0 ==> b == b1 + b2 + 1 && wbal(b1, b2),
    ensures rot_ok(l + rl + 1, rr, x1, x2, x3, x4, a, b, b1, b2)
{ reveal(rot_ok); }
proof fn lemma_join_l_rot_ok(r: nat, lr: nat, ll: nat, a: nat, b: nat, a1: nat, a2: nat, x1: nat, x2: nat, x3: nat, x4: nat)
    requires wbal(ll, lr), ll + lr + 1 > 3 * r, a + b + 1 == lr + r + 1, wbal(a, b), a > 0 ==> a == a1 + a2 + 1 && wbal(a1, a2),
    ensures rot_ok(ll, lr + r + 1, a, b, a1, a2, x1, x2, x3, x4)
{ reveal(rot_ok); }
proof fn lemma_join_mid_rot_ok(l: nat, r: nat, x1: nat, x2: nat, x3: nat, x4: nat, x5: nat, x6: nat, x7: nat, x8: nat)
    requires !(r > 3 * l), !(l > 3 * r)
    ensures rot_ok(l, r, x1, x2, x3, x4, x5, x6, x7, x8), wbal(l, r)
{ reveal(rot_ok); }
/// sizes of the children / grandchildren of a balanced tree
proof fn lemma_bal_unfold<V: Clone>(t: Tree<V>)
    requires tb(t), bal(t)
    ensures t is Some ==> is_data(t) && tb(lft(t)) && tb(rgt(t)) && bal(lft(t)) && bal(rgt(t)) && wbal(nsz(lft(t)), nsz(rgt(t)))
                && nsz(t) == 1 + nsz(lft(t)) + nsz(rgt(t))
                && view(t) == view(lft(t)).union_prefer_right(view(rgt(t))).insert(dn(t).key, dn(t).value)
                && (forall|x: u32| #[trigger] view(lft(t)).contains_key(x) ==> x < dn(t).key)
                && (forall|x: u32| #[trigger] view(rgt(t)).contains_key(x) ==> dn(t).key < x),
            t is None ==> nsz(t) == 0 && view(t) =~= Map::<u32, V>::empty(),
{
    if t is Some {
        let (lo, hi) = choose|lo: int, hi: int| #[trigger] bst(t, lo, hi);
        assert(is_data(t));
        assert(bst(lft(t), lo, dn(t).key as int)); assert(bst(rgt(t), dn(t).key as int, hi));
        lemma_view_dom(lft(t), lo, dn(t).key as int); lemma_view_dom(rgt(t), dn(t).key as int, hi);
    }
}
spec fn split_lo<V>(m: Map<u32, V>, lo: Map<u32, V>, k: u32) -> bool {
    forall|x: u32| (#[trigger] lo.contains_key(x) <==> (m.contains_key(x) && x < k)) && (lo.contains_key(x) ==> lo[x] == m[x])
}
spec fn split_hi<V>(m: Map<u32, V>, hi: Map<u32, V>, k: u32) -> bool {
    forall|x: u32| (#[trigger] hi.contains_key(x) <==> (m.contains_key(x) && k < x)) && (hi.contains_key(x) ==> hi[x] == m[x])
}
#[verifier::opaque]
spec fn near(l: nat, r: nat) -> bool {
    wbal(l, r) || (l > 0 && wbal((l - 1) as nat, r)) || wbal(l + 1, r) || (r > 0 && wbal(l, (r - 1) as nat)) || wbal(l, r + 1)
}
proof fn lemma_single_l(l: nat, rl: nat, rr: nat)
    requires near(l, rl + rr + 1), wbal(rl, rr), l + rl + rr + 1 >= 2, (rl + rr + 1) + 1 > 3 * (l + 1), rl + 1 < 2 * (rr + 1)
    ensures wbal(l, rl), wbal(l + rl + 1, rr)
{ reveal(near); }
proof fn lemma_double_l(l: nat, rll: nat, rlr: nat, rr: nat)
    requires near(l, (rll + rlr + 1) + rr + 1), wbal(rll + rlr + 1, rr), wbal(rll, rlr),
        ((rll + rlr + 1) + rr + 1) + 1 > 3 * (l + 1), (rll + rlr + 1) + 1 >= 2 * (rr + 1)
    ensures wbal(l, rll), wbal(rlr, rr), wbal(l + rll + 1, rlr + rr + 1)
{ reveal(near); }
proof fn lemma_single_r(r: nat, lr: nat, ll: nat)
    requires near(ll + lr + 1, r), wbal(ll, lr), r + ll + lr + 1 >= 2, (ll + lr + 1) + 1 > 3 * (r + 1), lr + 1 < 2 * (ll + 1)
    ensures wbal(lr, r), wbal(ll, lr + r + 1)
{ reveal(near); }
proof fn lemma_double_r(r: nat, lrr: nat, lrl: nat, ll: nat)
    requires near(ll + (lrl + lrr + 1) + 1, r), wbal(ll, lrl + lrr + 1), wbal(lrl, lrr),
        (ll + (lrl + lrr + 1) + 1) + 1 > 3 * (r + 1), (lrl + lrr + 1) + 1 >= 2 * (ll + 1)
    ensures wbal(lrr, r), wbal(ll, lrl), wbal(ll + lrl + 1, lrr + r + 1)
{ reveal(near); }
proof fn lemma_near_bal(l: nat, r: nat)
    requires near(l, r), !((r + 1) > 3 * (l + 1)), !((l + 1) > 3 * (r + 1))
    ensures wbal(l, r)
{ reveal(near); }
/// if t2 has the same keys/structure-bounds as t... (helper for rotations): re-establish bst under other bounds
proof fn lemma_rot_bounds<V: Clone>(a: Tree<V>, b: Tree<V>, lo: int, hi: int)
    requires bst(a, lo, hi), exists|l2: int, h2: int| #[trigger] bst(b, l2, h2), view(a).dom() =~= view(b).dom(), is_data(b)
    ensures bst(b, lo, hi)
{
    let (l2, h2) = choose|l2: int, h2: int| #[trigger] bst(b, l2, h2);
    lemma_view_dom(a, lo, hi);
    lemma_min_max(b, l2, h2, lo, hi);
}

/// a bst whose keys all lie in (lo,hi) is a bst for the bounds (lo,hi)
proof fn lemma_min_max<V: Clone>(b: Tree<V>, l2: int, h2: int, lo: int, hi: int)
    requires bst(b, l2, h2), forall|k: u32| #[trigger] view(b).contains_key(k) ==> lo < k < hi
    ensures bst(b, lo, hi)
    decreases b
{
    match b {
        None => {},
        Some(rc) => match *rc {
            Node::Data(d) => {
                assert(view(b).contains_key(d.key));
                assert forall|k: u32| #[trigger] view(d.left).contains_key(k) implies lo < k < d.key by {
                    lemma_view_dom(d.left, l2, d.key as int);
                    lemma_view_dom(d.right, d.key as int, h2);
                    assert(view(b).contains_key(k));
                }
                assert forall|k: u32| #[trigger] view(d.right).contains_key(k) implies d.key < k < hi by {
                    lemma_view_dom(d.right, d.key as int, h2);
                    assert(view(b).contains_key(k));
                }
                lemma_min_max(d.left, l2, d.key as int, lo, d.key as int);
                lemma_min_max(d.right, d.key as int, h2, d.key as int, hi);
            },
            Node::Mapping(_) => {},
        },
    }
}
