type Tree<V> = Option<Rc<Node<V>>>;

// ---------------- specification ----------------
spec fn is_data<V: Clone>(t: Tree<V>) -> bool { t is Some && *(t->0) is Data }
spec fn dn<V: Clone>(t: Tree<V>) -> DataNode<V> { (*(t->0))->Data_0 }
spec fn lft<V: Clone>(t: Tree<V>) -> Tree<V> { if is_data(t) { dn(t).left } else { None } }
spec fn rgt<V: Clone>(t: Tree<V>) -> Tree<V> { if is_data(t) { dn(t).right } else { None } }

spec fn nsz<V: Clone>(t: Tree<V>) -> nat
    decreases t
{
    match t {
        None => 0,
        Some(rc) => match *rc {
            Node::Data(d) => 1 + nsz(d.left) + nsz(d.right),
            Node::Mapping(_) => 0,
        },
    }
}

/// mapping-free, keys strictly inside (lo, hi), BST ordered, cached sizes exact.
spec fn bst<V: Clone>(t: Tree<V>, lo: int, hi: int) -> bool
    decreases t
{
    match t {
        None => true,
        Some(rc) => match *rc {
            Node::Data(d) => lo < d.key < hi && bst(d.left, lo, d.key as int) && bst(d.right, d.key as int, hi)
                && d.size == 1 + nsz(d.left) + nsz(d.right),
            Node::Mapping(_) => false,
        },
    }
}

spec fn tb<V: Clone>(t: Tree<V>) -> bool { exists|lo: int, hi: int| #[trigger] bst(t, lo, hi) }

spec fn wbal(l: nat, r: nat) -> bool {
    l + r < 2 || ((r + 1) <= 3 * (l + 1) && (l + 1) <= 3 * (r + 1))
}

spec fn bal<V: Clone>(t: Tree<V>) -> bool
    decreases t
{
    match t {
        None => true,
        Some(rc) => match *rc {
            Node::Data(d) => wbal(nsz(d.left), nsz(d.right)) && bal(d.left) && bal(d.right),
            Node::Mapping(_) => false,
        },
    }
}

spec fn view<V: Clone>(t: Tree<V>) -> Map<u32, V>
    decreases t
{
    match t {
        None => Map::empty(),
        Some(rc) => match *rc {
            Node::Data(d) => view(d.left).union_prefer_right(view(d.right)).insert(d.key, d.value),
            Node::Mapping(_) => Map::empty(),
        },
    }
}

proof fn lemma_size_bound<V: Clone>(t: Tree<V>, lo: int, hi: int)
    requires bst(t, lo, hi)
    ensures nsz(t) <= (if hi - lo - 1 > 0 { hi - lo - 1 } else { 0 }),
    decreases t
{
    match t {
        None => {},
        Some(rc) => match *rc {
            Node::Data(d) => { lemma_size_bound(d.left, lo, d.key as int); lemma_size_bound(d.right, d.key as int, hi); },
            Node::Mapping(_) => {},
        },
    }
}

proof fn lemma_bst_widen<V: Clone>(t: Tree<V>, lo: int, hi: int, lo2: int, hi2: int)
    requires bst(t, lo, hi), lo2 <= lo, hi <= hi2
    ensures bst(t, lo2, hi2)
    decreases t
{
    match t {
        None => {},
        Some(rc) => match *rc {
            Node::Data(d) => { lemma_bst_widen(d.left, lo, d.key as int, lo2, d.key as int); lemma_bst_widen(d.right, d.key as int, hi, d.key as int, hi2); },
            Node::Mapping(_) => {},
        },
    }
}

/// keys are u32, so any bst is a bst within (-1, 2^32)
proof fn lemma_bst_u32<V: Clone>(t: Tree<V>, lo: int, hi: int)
    requires bst(t, lo, hi)
    ensures bst(t, if lo < -1 { -1 } else { lo }, if hi > 0x1_0000_0000 { 0x1_0000_0000 } else { hi }), nsz(t) <= 0x1_0000_0000
    decreases t
{
    let lo2 = if lo < -1 { -1 } else { lo }; let hi2: int = if hi > 0x1_0000_0000 { 0x1_0000_0000 } else { hi };
    match t {
        None => {},
        Some(rc) => match *rc {
            Node::Data(d) => {
                lemma_bst_u32(d.left, lo, d.key as int); lemma_bst_u32(d.right, d.key as int, hi);
                lemma_bst_widen(d.left, if lo < -1 { -1 } else { lo }, d.key as int, lo2, d.key as int);
                lemma_bst_widen(d.right, d.key as int, if hi > 0x1_0000_0000 { 0x1_0000_0000 } else { hi }, d.key as int, hi2);
            },
            Node::Mapping(_) => {},
        },
    }
    lemma_size_bound(t, lo2, hi2);
}

proof fn lemma_view_dom<V: Clone>(t: Tree<V>, lo: int, hi: int)
    requires bst(t, lo, hi)
    ensures forall|k: u32| #[trigger] view(t).contains_key(k) ==> lo < k < hi,
    decreases t
{
    match t {
        None => {},
        Some(rc) => match *rc {
            Node::Data(d) => {
                lemma_view_dom(d.left, lo, d.key as int); lemma_view_dom(d.right, d.key as int, hi);
                assert forall|k: u32| #[trigger] view(t).contains_key(k) implies lo < k < hi by {
                    if k != d.key { assert(view(d.left).contains_key(k) || view(d.right).contains_key(k)); }
                }
            },
            Node::Mapping(_) => {},
        },
    }
}

