// Assumed specifications of std functions (exact signatures; no call-site rewriting).
pub assume_specification<T: std::marker::MetaSized + ?Sized, A: std::alloc::Allocator> [<std::rc::Rc<T, A> as std::convert::AsRef<T>>::as_ref] (r: &std::rc::Rc<T, A>) -> (o: &T)
    ensures o == &**r;
pub assume_specification<T: std::marker::MetaSized + ?Sized + std::clone::CloneToUninit, A: std::alloc::Allocator + Clone> [std::rc::Rc::<T, A>::make_mut] (r: &mut std::rc::Rc<T, A>) -> (o: &mut T)
    ensures &*o == &**old(r), &**final(r) == &*final(o);
pub assume_specification<T: Clone, A: std::alloc::Allocator> [std::rc::Rc::<T, A>::unwrap_or_clone] (r: std::rc::Rc<T, A>) -> (o: T)
    ensures o == *r;
pub assume_specification<T> [std::mem::replace] (dest: &mut T, src: T) -> (r: T)
    ensures r == *old(dest), *final(dest) == src;
pub assume_specification<T, U, F: FnOnce(T) -> U> [std::option::Option::<T>::map_or] (o: Option<T>, default: U, f: F) -> (r: U)
    requires o is Some ==> f.requires((o->0,)),
    ensures match o { None => r == default, Some(x) => f.ensures((x,), r) };


// Rc::clone returns a pointer to the same (immutable) value.  vstd specifies `<Rc<T> as Clone>::clone` (`res == *a`) but does not
// connect it to the `cloned` predicate that the specification of `Option::<Rc<T>>::clone` is stated with; this lemma restates it.
#[verifier::external_body]
pub proof fn lemma_rc_cloned<T>(a: Rc<T>, b: Rc<T>)
    requires cloned::<Rc<T>>(a, b)
    ensures a == b
{}

// pointer equality implies equality of the (immutable) values; nothing is known when it returns false
pub assume_specification<T: std::marker::MetaSized + ?Sized, A: std::alloc::Allocator> [std::rc::Rc::<T, A>::ptr_eq] (a: &std::rc::Rc<T, A>, b: &std::rc::Rc<T, A>) -> (r: bool)
    ensures r ==> a == b;
