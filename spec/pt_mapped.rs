// ---- mapped: element-wise mapping of tuples through graphs of partial functions (a PrefixTree2 holds pairs [x, y]).
// The code takes the FIRST item of the restriction under x, i.e. the smallest y with [x, y] in the graph.
pub open spec fn img(mp: PrefixTree2, x: u32, y: u32) -> bool { mp@.contains(seq![x, y]) }
pub open spec fn is_min_img(mp: PrefixTree2, x: u32, y: u32) -> bool {
    img(mp, x, y) && forall|z: u32| #[trigger] img(mp, x, z) ==> y <= z
}
pub open spec fn has_img(mp: PrefixTree2, x: u32) -> bool { exists|y: u32| is_min_img(mp, x, y) }
pub open spec fn min_img(mp: PrefixTree2, x: u32) -> u32 { choose|y: u32| is_min_img(mp, x, y) }
/// the image of one component: identity without a map, otherwise the smallest image under the graph (None outside its domain)
pub open spec fn map_el(m: Option<PrefixTree2>, x: u32) -> Option<u32> {
    match m {
        None => Some(x),
        Some(mp) => if has_img(mp, x) { Some(min_img(mp, x)) } else { None },
    }
}
pub open spec fn mwf(m: Option<PrefixTree2>) -> bool { m is Some ==> m->0.wf() }

/// { t | exists u in S. forall i. map_el(ms[i], u[i]) == Some(t[i]) } -- tuples with a component outside a map's domain are dropped
#[verifier::opaque]
pub open spec fn mapped_set(s: ISet<Seq<u32>>, ms: Seq<Option<PrefixTree2>>) -> ISet<Seq<u32>> {
    ISet::new(|t: Seq<u32>| t.len() == ms.len() && exists|u: Seq<u32>| #[trigger] s.contains(u) && u.len() == ms.len() && forall|i: int| 0 <= i < ms.len() ==> map_el(ms[i], u[i]) == Some(t[i]))
}

pub proof fn lemma_map_el_some(mp: PrefixTree2, x: u32, y: u32)
    requires is_min_img(mp, x, y)
    ensures map_el(Some(mp), x) == Some(y)
{
    assert(has_img(mp, x));
    let d = min_img(mp, x);
    assert(is_min_img(mp, x, d));
    assert(img(mp, x, d) && img(mp, x, y));
    assert(d <= y && y <= d);
}

pub proof fn lemma_map_el_none(mp: PrefixTree2, x: u32)
    requires forall|y: u32| !mp@.contains(seq![x, y])
    ensures map_el(Some(mp), x) is None
{
    assert forall|y: u32| !is_min_img(mp, x, y) by { assert(!img(mp, x, y)); }
}

/// no tuple of the graph starts with x (what `get(x) == None` says): x has no image
pub proof fn lemma_none_no_img(mp: PrefixTree2, x: u32)
    requires forall|t: Seq<u32>| #[trigger] mp@.contains(t) ==> t[0] != x
    ensures map_el(Some(mp), x) is None
{
    assert forall|y: u32| !mp@.contains(seq![x, y]) by { if mp@.contains(seq![x, y]) { assert(seq![x, y][0] == x); } }
    lemma_map_el_none(mp, x);
}

/// the minimum of the restriction under x (what `get(x)` returns) is the image of x
pub proof fn lemma_first_is_min(mp: PrefixTree2, x: u32, r: PrefixTree1, y: u32)
    requires set_min(r.set@, y), forall|t: Seq<u32>| #[trigger] r@.contains(t) <==> mp@.contains(cons(x, t)),
    ensures map_el(Some(mp), x) == Some(y)
{
    reveal(PrefixTree1::view);
    assert(r@.contains(seq![y]));
    assert(cons(x, seq![y]) =~= seq![x, y]);
    assert forall|z: u32| #[trigger] img(mp, x, z) implies y <= z by {
        assert(cons(x, seq![z]) =~= seq![x, z]);
        assert(r@.contains(seq![z]));
    }
    lemma_map_el_some(mp, x, y);
}
