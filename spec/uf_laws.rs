// Ghost vocabulary for unification.rs: partition of 0..n represented by a parent forest.
pub open spec fn ix<T: Into<u32>>(el: T) -> int { IntoSpec::<u32>::into_spec(el) as int }
pub open spec fn el_of<T: From<u32>>(i: int) -> T { FromSpec::<u32>::from_spec(i as u32) }

// Assumptions about the element type T (hold for every generated newtype `struct X(pub u32)`).
pub open spec fn t_laws<T: Copy + PartialEq + From<u32> + Into<u32>>() -> bool {
    &&& <T as IntoSpec<u32>>::obeys_into_spec()
    &&& <T as FromSpec<u32>>::obeys_from_spec()
    &&& T::obeys_eq_spec()
    &&& forall|a: T, b: T| #[trigger] a.eq_spec(&b) == (a == b)
    &&& forall|a: T| #[trigger] el_of::<T>(ix(a)) == a
    &&& forall|i: u32| ix(#[trigger] el_of::<T>(i as int)) == i as int
}

