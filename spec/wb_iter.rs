// ---- shared iteration (`Iter`): the remaining items of an iterator state, INCLUDING lazily mapped subtrees (Node::Mapping).
// `am` is the abstract meaning of the (unverified) function apply_mappings; for an empty mapping list the code does not call it.
pub uninterp spec fn am(maps: Seq<PrefixTree2>, k: u32) -> Option<u32>;

spec fn derefs(s: Seq<&PrefixTree2>) -> Seq<PrefixTree2> { Seq::new(s.len(), |i: int| *s[i]) }

spec fn key_m(maps: Seq<PrefixTree2>, k: u32) -> Option<u32> { if maps.len() == 0 { Some(k) } else { am(maps, k) } }

spec fn opt1<V>(k: Option<u32>, v: V) -> Seq<(u32, V)> { match k { Some(mk) => seq![(mk, v)], None => Seq::empty() } }

/// in-order enumeration of a tree under a list of pending key mappings (keys outside a mapping's domain are skipped)
spec fn inorder_m<V: Clone>(t: Tree<V>, maps: Seq<PrefixTree2>) -> Seq<(u32, V)>
    decreases t
{
    match t {
        None => Seq::empty(),
        Some(rc) => match *rc {
            Node::Data(d) => inorder_m(d.left, maps) + opt1(key_m(maps, d.key), d.value) + inorder_m(d.right, maps),
            Node::Mapping(mn) => inorder_m(mn.child, maps.push(mn.mapping)),
        },
    }
}

/// number of nodes of any kind (termination measure of the iterator)
spec fn nodes<V: Clone>(t: Tree<V>) -> nat
    decreases t
{
    match t {
        None => 0,
        Some(rc) => match *rc {
            Node::Data(d) => 1 + nodes(d.left) + nodes(d.right),
            Node::Mapping(mn) => 1 + nodes(mn.child),
        },
    }
}

spec fn stack_rem<V: Clone>(stack: Seq<(&DataNode<V>, Vec<&PrefixTree2>)>) -> Seq<(u32, V)>
    decreases stack.len()
{
    if stack.len() == 0 { Seq::empty() } else {
        let d = stack.last().0; let ms = derefs(stack.last().1@);
        opt1(key_m(ms, d.key), d.value) + inorder_m(d.right, ms) + stack_rem(stack.drop_last())
    }
}

spec fn stack_nodes<V: Clone>(stack: Seq<(&DataNode<V>, Vec<&PrefixTree2>)>) -> nat
    decreases stack.len()
{
    if stack.len() == 0 { 0 } else { 2 + 2 * nodes(stack.last().0.right) + stack_nodes(stack.drop_last()) }
}

proof fn lemma_stack_push<V: Clone>(stack: Seq<(&DataNode<V>, Vec<&PrefixTree2>)>, e: (&DataNode<V>, Vec<&PrefixTree2>))
    ensures stack_rem(stack.push(e)) == opt1(key_m(derefs(e.1@), e.0.key), e.0.value) + inorder_m(e.0.right, derefs(e.1@)) + stack_rem(stack),
        stack_nodes(stack.push(e)) == 2 + 2 * nodes(e.0.right) + stack_nodes(stack),
{
    assert(stack.push(e).drop_last() =~= stack);
    assert(stack.push(e).last() == e);
}

/// for a mapping-free search tree the enumeration is the tree's view, in strictly increasing key order
proof fn lemma_inorder_view<V: Clone>(t: Tree<V>, lo: int, hi: int)
    requires bst(t, lo, hi)
    ensures
        forall|i: int| 0 <= i < inorder_m(t, Seq::empty()).len() ==> lo < (#[trigger] inorder_m(t, Seq::empty())[i]).0 < hi,
        forall|i: int, j: int| 0 <= i < j < inorder_m(t, Seq::empty()).len() ==> (#[trigger] inorder_m(t, Seq::empty())[i]).0 < (#[trigger] inorder_m(t, Seq::empty())[j]).0,
        forall|i: int| 0 <= i < inorder_m(t, Seq::empty()).len() ==> view(t).contains_key((#[trigger] inorder_m(t, Seq::empty())[i]).0) && view(t)[inorder_m(t, Seq::empty())[i].0] == inorder_m(t, Seq::empty())[i].1,
        forall|k: u32| #[trigger] view(t).contains_key(k) ==> exists|i: int| 0 <= i < inorder_m(t, Seq::empty()).len() && (#[trigger] inorder_m(t, Seq::empty())[i]).0 == k,
        inorder_m(t, Seq::empty()).len() == nsz(t),
    decreases t
{
    let e = Seq::<PrefixTree2>::empty();
    match t {
        None => {},
        Some(rc) => match *rc {
            Node::Data(d) => {
                lemma_inorder_view(d.left, lo, d.key as int); lemma_inorder_view(d.right, d.key as int, hi);
                lemma_view_dom(d.left, lo, d.key as int); lemma_view_dom(d.right, d.key as int, hi);
                let a = inorder_m(d.left, e); let b = inorder_m(d.right, e); let mid = seq![(d.key, d.value)];
                let s = inorder_m(t, e);
                assert(key_m(e, d.key) == Some(d.key));
                assert(opt1(key_m(e, d.key), d.value) =~= mid);
                assert(s =~= a + mid + b);
                assert(s.len() == a.len() + 1 + b.len());
                assert forall|i: int| 0 <= i < s.len() implies
                    (#[trigger] s[i]) == (if i < a.len() { a[i] } else if i == a.len() { (d.key, d.value) } else { b[i - a.len() - 1] }) by {}
                assert forall|k: u32| #[trigger] view(t).contains_key(k) implies exists|i: int| 0 <= i < s.len() && (#[trigger] s[i]).0 == k by {
                    if k == d.key { assert(s[a.len() as int].0 == k); }
                    else if view(d.right).contains_key(k) { let j = choose|j: int| 0 <= j < b.len() && (#[trigger] b[j]).0 == k; assert(s[a.len() + 1 + j].0 == k); }
                    else { assert(view(d.left).contains_key(k)); let j = choose|j: int| 0 <= j < a.len() && (#[trigger] a[j]).0 == k; assert(s[j].0 == k); }
                }
                assert forall|i: int| 0 <= i < s.len() implies view(t).contains_key((#[trigger] s[i]).0) && view(t)[s[i].0] == s[i].1 by {
                    if i < a.len() { assert(view(d.left).contains_key(a[i].0)); assert(!view(d.right).contains_key(a[i].0)); }
                    else if i > a.len() { assert(view(d.right).contains_key(b[i - a.len() - 1].0)); }
                }
            },
            Node::Mapping(_) => {},
        },
    }
}
