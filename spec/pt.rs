// Ghost vocabulary for prefix_tree.rs: a PrefixTreeN is viewed as a set of tuples (Seq<u32> of length N).
pub open spec fn cons(k: u32, t: Seq<u32>) -> Seq<u32> { seq![k] + t }

/// { [k] ++ s | s in S }
pub open spec fn prefixed(k: u32, s: ISet<Seq<u32>>) -> ISet<Seq<u32>> {
    ISet::new(|t: Seq<u32>| t.len() > 0 && t[0] == k && s.contains(t.skip(1)))
}

pub open spec fn nonempty(s: ISet<Seq<u32>>) -> bool { exists|t: Seq<u32>| s.contains(t) }

pub proof fn lemma_head_tail(t: Seq<u32>, p: Seq<u32>)
    requires t.len() == p.len(), t.len() > 0
    ensures (t == p) <==> (t[0] == p[0] && t.skip(1) == p.skip(1))
{
    if t[0] == p[0] && t.skip(1) == p.skip(1) {
        assert forall|i: int| 0 <= i < t.len() implies t[i] == p[i] by {
            if i > 0 { assert(t.skip(1)[i - 1] == p.skip(1)[i - 1]); }
        }
        assert(t =~= p);
    }
}

pub proof fn lemma_cons(k: u32, t: Seq<u32>)
    ensures cons(k, t).len() == t.len() + 1, cons(k, t)[0] == k, cons(k, t).skip(1) == t
{
    assert(cons(k, t).skip(1) =~= t);
}

pub proof fn lemma_uncons(t: Seq<u32>)
    requires t.len() > 0
    ensures cons(t[0], t.skip(1)) == t
{
    assert(cons(t[0], t.skip(1)) =~= t);
}
