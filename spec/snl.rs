// C16: the counting statement over the age matrix that to_semi_naive is contracted to produce (all n).
pub enum Age { New, Old, All }

/// the contract of to_semi_naive: age of premise position j in sub-rule i
pub open spec fn age(i: int, j: int) -> Age { if j < i { Age::All } else if j == i { Age::New } else { Age::Old } }

/// does an atom read with age `a` see a tuple labelled `is_new`?
pub open spec fn sees(a: Age, is_new: bool) -> bool { match a { Age::All => true, Age::New => is_new, Age::Old => !is_new } }

/// sub-rule i enumerates the match whose tuples are labelled by `lab`
pub open spec fn enumerates(i: int, lab: Seq<bool>) -> bool { forall|j: int| 0 <= j < lab.len() ==> sees(age(i, j), #[trigger] lab[j]) }

pub open spec fn some_new(lab: Seq<bool>) -> bool { exists|j: int| 0 <= j < lab.len() && lab[j] }

/// index of the last new tuple (or -1)
pub open spec fn last_new(lab: Seq<bool>) -> int
    decreases lab.len()
{
    if lab.len() == 0 { -1 } else if lab.last() { lab.len() - 1 } else { last_new(lab.drop_last()) }
}

pub proof fn lemma_last_new(lab: Seq<bool>)
    ensures -1 <= last_new(lab) < lab.len(),
        last_new(lab) >= 0 ==> lab[last_new(lab)],
        forall|j: int| last_new(lab) < j < lab.len() ==> !#[trigger] lab[j],
        (last_new(lab) == -1) == !some_new(lab),
    decreases lab.len()
{
    if lab.len() > 0 && !lab.last() {
        lemma_last_new(lab.drop_last());
        let d = lab.drop_last();
        assert forall|j: int| last_new(lab) < j < lab.len() implies !#[trigger] lab[j] by { if j < d.len() { assert(d[j] == lab[j]); } }
        if last_new(d) >= 0 { assert(d[last_new(d)] == lab[last_new(d)]); }
        if some_new(lab) { let j = choose|j: int| 0 <= j < lab.len() && lab[j]; assert(d[j] == lab[j]); assert(some_new(d)); }
        if some_new(d) { let j = choose|j: int| 0 <= j < d.len() && d[j]; assert(lab[j]); }
    }
}

/// C16: for every labelling, a match is enumerated by exactly one sub-rule iff it contains a new tuple, by none otherwise
pub proof fn lemma_semi_naive_partition(lab: Seq<bool>)
    ensures
        forall|i: int| 0 <= i < lab.len() ==> (#[trigger] enumerates(i, lab) <==> (some_new(lab) && i == last_new(lab))),
{
    lemma_last_new(lab);
    assert forall|i: int| 0 <= i < lab.len() implies (#[trigger] enumerates(i, lab) <==> (some_new(lab) && i == last_new(lab))) by {
        if enumerates(i, lab) {
            assert(sees(age(i, i), lab[i]));
            assert(lab[i]);
            let l = last_new(lab);
            if l > i { assert(sees(age(i, l), lab[l])); }
            if l < i { }
        }
        if some_new(lab) && i == last_new(lab) {
            assert forall|j: int| 0 <= j < lab.len() implies sees(age(i, j), #[trigger] lab[j]) by {}
        }
    }
}

/// the implicit functionality rule: atoms (New, All). Symmetric in its two atoms: a match (t0,t1) and its mirror (t1,t0)
/// are the same instance; every instance with a new tuple is enumerated (possibly in both orientations, which derive the same equality), none if both old.
pub proof fn lemma_functionality(l0: bool, l1: bool)
    ensures ((sees(Age::New, l0) && sees(Age::All, l1)) || (sees(Age::New, l1) && sees(Age::All, l0))) <==> (l0 || l1)
{}

