// Parent-forest vocabulary and lemmas for unification.rs (element-type laws are in uf_laws.rs).
// p: parent pointers as indices. rank witnesses acyclicity: every non-root has a parent of strictly larger rank.
pub open spec fn ranked(p: Seq<int>, rank: Seq<nat>, b: nat) -> bool {
    &&& rank.len() == p.len()
    &&& forall|i: int| 0 <= i < p.len() ==> 0 <= #[trigger] p[i] < p.len()
    &&& forall|i: int| 0 <= i < p.len() ==> #[trigger] rank[i] <= b
    &&& forall|i: int| 0 <= i < p.len() && p[i] != i ==> rank[i] < #[trigger] rank[p[i]]
}

pub open spec fn forest(p: Seq<int>) -> bool { exists|rank: Seq<nat>, b: nat| ranked(p, rank, b) }

pub open spec fn root_w(p: Seq<int>, rank: Seq<nat>, b: nat, i: int) -> int
    decreases b - rank[i]
{
    if ranked(p, rank, b) && 0 <= i < p.len() && p[i] != i { root_w(p, rank, b, p[i]) } else { i }
}

/// The root of i: defined through an arbitrary rank witness; lemma_root_indep shows it does not depend on the witness.
pub open spec fn root_of(p: Seq<int>, i: int) -> int {
    let (rank, b) = choose|rank: Seq<nat>, b: nat| ranked(p, rank, b);
    root_w(p, rank, b, i)
}

pub proof fn lemma_root_w_props(p: Seq<int>, rank: Seq<nat>, b: nat, i: int)
    requires ranked(p, rank, b), 0 <= i < p.len()
    ensures 0 <= root_w(p, rank, b, i) < p.len(), p[root_w(p, rank, b, i)] == root_w(p, rank, b, i),
            root_w(p, rank, b, p[i]) == root_w(p, rank, b, i),
            rank[i] <= rank[root_w(p, rank, b, i)],
    decreases b - rank[i]
{
    if p[i] != i { lemma_root_w_props(p, rank, b, p[i]); }
}

pub proof fn lemma_root_indep(p: Seq<int>, r1: Seq<nat>, b1: nat, r2: Seq<nat>, b2: nat, i: int)
    requires ranked(p, r1, b1), ranked(p, r2, b2), 0 <= i < p.len()
    ensures root_w(p, r1, b1, i) == root_w(p, r2, b2, i)
    decreases b1 - r1[i]
{
    if p[i] != i { lemma_root_indep(p, r1, b1, r2, b2, p[i]); }
}

pub proof fn lemma_root_of(p: Seq<int>, rank: Seq<nat>, b: nat, i: int)
    requires ranked(p, rank, b), 0 <= i < p.len()
    ensures root_of(p, i) == root_w(p, rank, b, i),
        0 <= root_of(p, i) < p.len(), p[root_of(p, i)] == root_of(p, i),
        root_of(p, p[i]) == root_of(p, i),
        p[i] == i ==> root_of(p, i) == i,
{
    let (r2, b2) = choose|rank: Seq<nat>, b: nat| ranked(p, rank, b);
    lemma_root_indep(p, r2, b2, rank, b, i);
    lemma_root_indep(p, r2, b2, rank, b, p[i]);
    lemma_root_w_props(p, rank, b, i);
}

pub proof fn lemma_compress(p: Seq<int>, rank: Seq<nat>, b: nat, x: int, i: int)
    requires ranked(p, rank, b), 0 <= x < p.len(), 0 <= i < p.len()
    ensures ranked(p.update(x, p[p[x]]), rank, b),
        root_w(p.update(x, p[p[x]]), rank, b, i) == root_w(p, rank, b, i)
    decreases b - rank[i]
{
    let p2 = p.update(x, p[p[x]]);
    assert(ranked(p2, rank, b)) by {
        assert forall|j: int| 0 <= j < p2.len() && p2[j] != j implies rank[j] < #[trigger] rank[p2[j]] by {
            if j == x { assert(p[x] != x); assert(rank[x] < rank[p[x]]); if p[p[x]] != p[x] { assert(rank[p[x]] < rank[p[p[x]]]); } }
        }
    }
    if p[i] != i {
        lemma_compress(p, rank, b, x, p[i]);
        if i == x {
            if p[p[x]] != p[x] { lemma_compress(p, rank, b, x, p[p[x]]); } else { }
            lemma_root_w_props(p, rank, b, p[x]);
        }
    }
}

pub proof fn lemma_union(p: Seq<int>, rank: Seq<nat>, b: nat, l: int, r: int, i: int)
    requires ranked(p, rank, b), 0 <= l < p.len(), 0 <= r < p.len(), p[l] == l, p[r] == r, 0 <= i < p.len()
    ensures
        ({ let rank2 = if l == r { rank } else { rank.update(r, (if rank[r] > rank[l] { rank[r] } else { rank[l] + 1 }) as nat) };
           let p2 = p.update(l, r);
           &&& ranked(p2, rank2, b + 1)
           &&& root_w(p2, rank2, b + 1, i) == (if root_w(p, rank, b, i) == l { r } else { root_w(p, rank, b, i) }) })
    decreases b - rank[i]
{
    let rank2 = if l == r { rank } else { rank.update(r, (if rank[r] > rank[l] { rank[r] } else { rank[l] + 1 }) as nat) };
    let p2 = p.update(l, r);
    assert(ranked(p2, rank2, b + 1)) by {
        assert forall|j: int| 0 <= j < p2.len() && p2[j] != j implies rank2[j] < #[trigger] rank2[p2[j]] by {
            if j != l { assert(rank[j] < rank[p[j]]); }
        }
    }
    if p[i] != i {
        lemma_union(p, rank, b, l, r, p[i]);
        assert(p2[i] == p[i]);
    } else {
        assert(root_w(p2, rank2, b + 1, r) == r);
        if i == l && l != r { assert(p2[l] == r); assert(root_w(p2, rank2, b + 1, l) == root_w(p2, rank2, b + 1, r)); }
    }
}

pub proof fn lemma_push(p: Seq<int>, rank: Seq<nat>, b: nat, j: int)
    requires ranked(p, rank, b), 0 <= j < p.len()
    ensures ranked(p.push(p.len() as int), rank.push(0), b),
        root_w(p.push(p.len() as int), rank.push(0), b, j) == root_w(p, rank, b, j)
    decreases b - rank[j]
{
    if p[j] != j { lemma_push(p, rank, b, p[j]); }
}


pub proof fn lemma_push_ranked(p: Seq<int>, rank: Seq<nat>, b: nat)
    requires ranked(p, rank, b)
    ensures ranked(p.push(p.len() as int), rank.push(0), b)
{
    let p2 = p.push(p.len() as int);
    let r2 = rank.push(0);
    assert forall|i: int| 0 <= i < p2.len() && p2[i] != i implies r2[i] < #[trigger] r2[p2[i]] by {
        assert(i < p.len()); assert(rank[i] < rank[p[i]]);
    }
}

pub proof fn lemma_forest_len0(p: Seq<int>)
    requires p.len() == 0
    ensures forest(p)
{
    assert(ranked(p, Seq::<nat>::empty(), 0));
}
