// Map-level reasoning for Node::union / Node::difference (no trees here).
spec fn submap<V>(a: Map<u32, V>, b: Map<u32, V>) -> bool {
    forall|x: u32| #[trigger] a.contains_key(x) ==> b.contains_key(x) && a[x] == b[x]
}

/// the callback may be called on every common key with (key, left value, right value)
spec fn req_ok<V, F: FnMut(&u32, V, V) -> V>(l: Map<u32, V>, r: Map<u32, V>, mg: F) -> bool {
    forall|k: &u32| l.contains_key(*k) && r.contains_key(*k) ==> #[trigger] mg.requires((k, l[*k], r[*k]))
}

spec fn merged_by<V, F: FnMut(&u32, V, V) -> V>(k: u32, a: V, b: V, out: V, mg: F) -> bool { mg.ensures((&k, a, b), out) }

/// res is the union of l and r; on a common key the value is what the callback returned for (key, LEFT value, RIGHT value)
spec fn is_union<V, F: FnMut(&u32, V, V) -> V>(l: Map<u32, V>, r: Map<u32, V>, res: Map<u32, V>, mg: F) -> bool {
    &&& forall|x: u32| #[trigger] res.contains_key(x) <==> (l.contains_key(x) || r.contains_key(x))
    &&& forall|x: u32| l.contains_key(x) && !r.contains_key(x) ==> #[trigger] res[x] == l[x]
    &&& forall|x: u32| !l.contains_key(x) && r.contains_key(x) ==> #[trigger] res[x] == r[x]
    &&& forall|x: u32| l.contains_key(x) && r.contains_key(x) ==> #[trigger] merged_by(x, l[x], r[x], res[x], mg)
}

proof fn lemma_req_sub<V, F: FnMut(&u32, V, V) -> V>(lm: Map<u32, V>, rm: Map<u32, V>, l2: Map<u32, V>, r2: Map<u32, V>, mg: F)
    requires req_ok(lm, rm, mg), submap(l2, lm), submap(r2, rm)
    ensures req_ok(l2, r2, mg)
{
    assert forall|k: &u32| l2.contains_key(*k) && r2.contains_key(*k) implies #[trigger] mg.requires((k, l2[*k], r2[*k])) by {
        assert(lm.contains_key(*k) && rm.contains_key(*k));
        assert(mg.requires((k, lm[*k], rm[*k])));
    }
}

proof fn lemma_node_submaps<V>(m: Map<u32, V>, l: Map<u32, V>, r: Map<u32, V>, k: u32, v: V)
    requires m == l.union_prefer_right(r).insert(k, v),
        forall|x: u32| #[trigger] l.contains_key(x) ==> x < k, forall|x: u32| #[trigger] r.contains_key(x) ==> k < x,
    ensures submap(l, m), submap(r, m), m.contains_key(k), m[k] == v
{
    assert forall|x: u32| #[trigger] l.contains_key(x) implies m.contains_key(x) && l[x] == m[x] by { assert(!r.contains_key(x)); }
}

proof fn lemma_split_submaps<V>(m: Map<u32, V>, lo: Map<u32, V>, hi: Map<u32, V>, k: u32)
    requires split_lo(m, lo, k), split_hi(m, hi, k)
    ensures submap(lo, m), submap(hi, m)
{
}

/// base = left: L = ll u lr u {k -> lv}, R split at k into (rlo, rv?, rhi)
proof fn lemma_union_step_left<V, F: FnMut(&u32, V, V) -> V>(
    lm: Map<u32, V>, rm: Map<u32, V>, ll: Map<u32, V>, lr: Map<u32, V>, k: u32, lv: V,
    rlo: Map<u32, V>, rhi: Map<u32, V>, nv: V, nl: Map<u32, V>, nr: Map<u32, V>, res: Map<u32, V>, mg: F)
    requires
        lm == ll.union_prefer_right(lr).insert(k, lv),
        forall|x: u32| #[trigger] ll.contains_key(x) ==> x < k, forall|x: u32| #[trigger] lr.contains_key(x) ==> k < x,
        split_lo(rm, rlo, k), split_hi(rm, rhi, k),
        rm.contains_key(k) ==> merged_by(k, lv, rm[k], nv, mg),
        !rm.contains_key(k) ==> nv == lv,
        is_union(ll, rlo, nl, mg), is_union(lr, rhi, nr, mg),
        res == nl.union_prefer_right(nr).insert(k, nv),
    ensures is_union(lm, rm, res, mg)
{
    assert forall|x: u32| #[trigger] res.contains_key(x) <==> (lm.contains_key(x) || rm.contains_key(x)) by {
        if x < k { assert(rlo.contains_key(x) <==> rm.contains_key(x)); assert(!nr.contains_key(x)) by { if nr.contains_key(x) { assert(lr.contains_key(x) || rhi.contains_key(x)); } } }
        else if x > k { assert(rhi.contains_key(x) <==> rm.contains_key(x)); assert(!nl.contains_key(x)) by { if nl.contains_key(x) { assert(ll.contains_key(x) || rlo.contains_key(x)); } } }
    }
    assert forall|x: u32| lm.contains_key(x) && !rm.contains_key(x) implies #[trigger] res[x] == lm[x] by {
        if x < k { assert(!rlo.contains_key(x)); assert(ll.contains_key(x)); assert(nl[x] == ll[x]); assert(!nr.contains_key(x)) by { if nr.contains_key(x) { assert(lr.contains_key(x) || rhi.contains_key(x)); } } }
        else if x > k { assert(!rhi.contains_key(x)); assert(lr.contains_key(x)); assert(nr[x] == lr[x]); assert(nr.contains_key(x)); }
    }
    assert forall|x: u32| !lm.contains_key(x) && rm.contains_key(x) implies #[trigger] res[x] == rm[x] by {
        if x < k { assert(rlo.contains_key(x)); assert(!ll.contains_key(x)); assert(nl[x] == rlo[x]); assert(!nr.contains_key(x)) by { if nr.contains_key(x) { assert(lr.contains_key(x) || rhi.contains_key(x)); } } }
        else if x > k { assert(rhi.contains_key(x)); assert(!lr.contains_key(x)); assert(nr[x] == rhi[x]); assert(nr.contains_key(x)); }
    }
    assert forall|x: u32| lm.contains_key(x) && rm.contains_key(x) implies #[trigger] merged_by(x, lm[x], rm[x], res[x], mg) by {
        if x < k { assert(rlo.contains_key(x)); assert(ll.contains_key(x)); assert(!nr.contains_key(x)) by { if nr.contains_key(x) { assert(lr.contains_key(x) || rhi.contains_key(x)); } }
            assert(nl.contains_key(x)); assert(res[x] == nl[x]); assert(!lr.contains_key(x));
            assert(merged_by(x, ll[x], rlo[x], nl[x], mg)); }
        else if x > k { assert(rhi.contains_key(x)); assert(lr.contains_key(x)); assert(nr.contains_key(x)); assert(res[x] == nr[x]);
            assert(merged_by(x, lr[x], rhi[x], nr[x], mg)); }
        else { assert(merged_by(k, lv, rm[k], nv, mg)); }
    }
}

/// base = right: R = rl u rr u {k -> rv}, L split at k into (llo, lv?, lhi)
proof fn lemma_union_step_right<V, F: FnMut(&u32, V, V) -> V>(
    lm: Map<u32, V>, rm: Map<u32, V>, rl: Map<u32, V>, rr: Map<u32, V>, k: u32, rv: V,
    llo: Map<u32, V>, lhi: Map<u32, V>, nv: V, nl: Map<u32, V>, nr: Map<u32, V>, res: Map<u32, V>, mg: F)
    requires
        rm == rl.union_prefer_right(rr).insert(k, rv),
        forall|x: u32| #[trigger] rl.contains_key(x) ==> x < k, forall|x: u32| #[trigger] rr.contains_key(x) ==> k < x,
        split_lo(lm, llo, k), split_hi(lm, lhi, k),
        lm.contains_key(k) ==> merged_by(k, lm[k], rv, nv, mg),
        !lm.contains_key(k) ==> nv == rv,
        is_union(llo, rl, nl, mg), is_union(lhi, rr, nr, mg),
        res == nl.union_prefer_right(nr).insert(k, nv),
    ensures is_union(lm, rm, res, mg)
{
    assert forall|x: u32| #[trigger] res.contains_key(x) <==> (lm.contains_key(x) || rm.contains_key(x)) by {
        if x < k { assert(llo.contains_key(x) <==> lm.contains_key(x)); assert(!nr.contains_key(x)) by { if nr.contains_key(x) { assert(rr.contains_key(x) || lhi.contains_key(x)); } } }
        else if x > k { assert(lhi.contains_key(x) <==> lm.contains_key(x)); assert(!nl.contains_key(x)) by { if nl.contains_key(x) { assert(rl.contains_key(x) || llo.contains_key(x)); } } }
    }
    assert forall|x: u32| lm.contains_key(x) && !rm.contains_key(x) implies #[trigger] res[x] == lm[x] by {
        if x < k { assert(llo.contains_key(x)); assert(!rl.contains_key(x)); assert(nl[x] == llo[x]); assert(!nr.contains_key(x)) by { if nr.contains_key(x) { assert(rr.contains_key(x) || lhi.contains_key(x)); } } }
        else if x > k { assert(lhi.contains_key(x)); assert(!rr.contains_key(x)); assert(nr[x] == lhi[x]); assert(nr.contains_key(x)); }
    }
    assert forall|x: u32| !lm.contains_key(x) && rm.contains_key(x) implies #[trigger] res[x] == rm[x] by {
        if x < k { assert(!llo.contains_key(x)); assert(rl.contains_key(x)); assert(nl[x] == rl[x]); assert(!rr.contains_key(x)); assert(!nr.contains_key(x)) by { if nr.contains_key(x) { assert(rr.contains_key(x) || lhi.contains_key(x)); } } }
        else if x > k { assert(!lhi.contains_key(x)); assert(rr.contains_key(x)); assert(nr[x] == rr[x]); assert(nr.contains_key(x)); }
    }
    assert forall|x: u32| lm.contains_key(x) && rm.contains_key(x) implies #[trigger] merged_by(x, lm[x], rm[x], res[x], mg) by {
        if x < k { assert(llo.contains_key(x)); assert(rl.contains_key(x)); assert(!rr.contains_key(x)); assert(!nr.contains_key(x)) by { if nr.contains_key(x) { assert(rr.contains_key(x) || lhi.contains_key(x)); } }
            assert(nl.contains_key(x)); assert(res[x] == nl[x]);
            assert(merged_by(x, llo[x], rl[x], nl[x], mg)); }
        else if x > k { assert(lhi.contains_key(x)); assert(rr.contains_key(x)); assert(nr.contains_key(x)); assert(res[x] == nr[x]);
            assert(merged_by(x, lhi[x], rr[x], nr[x], mg)); }
        else { assert(merged_by(k, lm[k], rv, nv, mg)); }
    }
}

// ---- difference -------------------------------------------------------------------------------------------

/// the filter callback may be called on every common key with (key, left value, right value)
spec fn dreq_ok<V, F: FnMut(&u32, V, V) -> Option<V>>(l: Map<u32, V>, r: Map<u32, V>, df: F) -> bool {
    forall|k: &u32| l.contains_key(*k) && r.contains_key(*k) ==> #[trigger] df.requires((k, l[*k], r[*k]))
}

/// on a common key the callback, called with (key, LEFT value, RIGHT value), decided whether the key stays and with which value
spec fn kept_by<V, F: FnMut(&u32, V, V) -> Option<V>>(k: u32, a: V, b: V, res: Map<u32, V>, df: F) -> bool {
    exists|o: Option<V>| #[trigger] df.ensures((&k, a, b), o) && (o is Some <==> res.contains_key(k)) && (o is Some ==> res[k] == o->0)
}

spec fn is_diff<V, F: FnMut(&u32, V, V) -> Option<V>>(l: Map<u32, V>, r: Map<u32, V>, res: Map<u32, V>, df: F) -> bool {
    &&& forall|x: u32| #[trigger] res.contains_key(x) ==> l.contains_key(x)
    &&& forall|x: u32| #![trigger res.contains_key(x)] l.contains_key(x) && !r.contains_key(x) ==> res.contains_key(x)
    &&& forall|x: u32| l.contains_key(x) && !r.contains_key(x) ==> #[trigger] res[x] == l[x]
    &&& forall|x: u32| #![trigger res.contains_key(x)] #![trigger kept_by(x, l[x], r[x], res, df)] l.contains_key(x) && r.contains_key(x) ==> kept_by(x, l[x], r[x], res, df)
}

proof fn lemma_dreq_sub<V, F: FnMut(&u32, V, V) -> Option<V>>(lm: Map<u32, V>, rm: Map<u32, V>, l2: Map<u32, V>, r2: Map<u32, V>, df: F)
    requires dreq_ok(lm, rm, df), submap(l2, lm), submap(r2, rm)
    ensures dreq_ok(l2, r2, df)
{
    assert forall|k: &u32| l2.contains_key(*k) && r2.contains_key(*k) implies #[trigger] df.requires((k, l2[*k], r2[*k])) by {
        assert(lm.contains_key(*k) && rm.contains_key(*k));
        assert(df.requires((k, lm[*k], rm[*k])));
    }
}

/// L = ll u lr u {k -> lv}, R split at k into (rlo, rv?, rhi); `o` is what happens to k: the callback's answer if R has k, else Some(lv)
proof fn lemma_diff_step<V, F: FnMut(&u32, V, V) -> Option<V>>(
    lm: Map<u32, V>, rm: Map<u32, V>, ll: Map<u32, V>, lr: Map<u32, V>, k: u32, lv: V,
    rlo: Map<u32, V>, rhi: Map<u32, V>, o: Option<V>, nl: Map<u32, V>, nr: Map<u32, V>, res: Map<u32, V>, df: F)
    requires
        lm == ll.union_prefer_right(lr).insert(k, lv),
        forall|x: u32| #[trigger] ll.contains_key(x) ==> x < k, forall|x: u32| #[trigger] lr.contains_key(x) ==> k < x,
        split_lo(rm, rlo, k), split_hi(rm, rhi, k),
        rm.contains_key(k) ==> df.ensures((&k, lv, rm[k]), o),
        !rm.contains_key(k) ==> o == Some(lv),
        is_diff(ll, rlo, nl, df), is_diff(lr, rhi, nr, df),
        forall|x: u32| #[trigger] res.contains_key(x) <==> (nl.contains_key(x) || nr.contains_key(x) || (x == k && o is Some)),
        forall|x: u32| nl.contains_key(x) ==> #[trigger] res[x] == nl[x],
        forall|x: u32| nr.contains_key(x) ==> #[trigger] res[x] == nr[x],
        o is Some ==> res[k] == o->0,
    ensures is_diff(lm, rm, res, df)
{
    assert forall|x: u32| #[trigger] nl.contains_key(x) implies x < k by { assert(ll.contains_key(x)); }
    assert forall|x: u32| #[trigger] nr.contains_key(x) implies k < x by { assert(lr.contains_key(x)); }
    assert forall|x: u32| #[trigger] res.contains_key(x) implies lm.contains_key(x) by {
        if nl.contains_key(x) { assert(ll.contains_key(x)); } else if nr.contains_key(x) { assert(lr.contains_key(x)); }
    }
    assert forall|x: u32| #![trigger res.contains_key(x)] lm.contains_key(x) && !rm.contains_key(x) implies res.contains_key(x) by {
        if x < k { assert(ll.contains_key(x)); assert(!rlo.contains_key(x)); assert(nl.contains_key(x)); }
        else if x > k { assert(lr.contains_key(x)); assert(!rhi.contains_key(x)); assert(nr.contains_key(x)); }
    }
    assert forall|x: u32| lm.contains_key(x) && !rm.contains_key(x) implies #[trigger] res[x] == lm[x] by {
        if x < k { assert(ll.contains_key(x)); assert(!lr.contains_key(x)); assert(!rlo.contains_key(x)); assert(nl.contains_key(x)); assert(nl[x] == ll[x]); }
        else if x > k { assert(lr.contains_key(x)); assert(!rhi.contains_key(x)); assert(nr.contains_key(x)); assert(nr[x] == lr[x]); }
    }
    assert forall|x: u32| lm.contains_key(x) && rm.contains_key(x) implies #[trigger] kept_by(x, lm[x], rm[x], res, df) by {
        if x < k {
            assert(ll.contains_key(x)); assert(!lr.contains_key(x)); assert(rlo.contains_key(x)); assert(nl.contains_key(x) || !nl.contains_key(x));
            assert(kept_by(x, ll[x], rlo[x], nl, df));
            let o2 = choose|o2: Option<V>| #[trigger] df.ensures((&x, ll[x], rlo[x]), o2) && (o2 is Some <==> nl.contains_key(x)) && (o2 is Some ==> nl[x] == o2->0);
            assert(!nr.contains_key(x));
            assert(df.ensures((&x, lm[x], rm[x]), o2) && (o2 is Some <==> res.contains_key(x)) && (o2 is Some ==> res[x] == o2->0));
        } else if x > k {
            assert(lr.contains_key(x)); assert(rhi.contains_key(x)); assert(nr.contains_key(x) || !nr.contains_key(x));
            assert(kept_by(x, lr[x], rhi[x], nr, df));
            let o2 = choose|o2: Option<V>| #[trigger] df.ensures((&x, lr[x], rhi[x]), o2) && (o2 is Some <==> nr.contains_key(x)) && (o2 is Some ==> nr[x] == o2->0);
            assert(!nl.contains_key(x));
            assert(df.ensures((&x, lm[x], rm[x]), o2) && (o2 is Some <==> res.contains_key(x)) && (o2 is Some ==> res[x] == o2->0));
        } else {
            assert(!nl.contains_key(k)); assert(!nr.contains_key(k));
            assert(df.ensures((&k, lm[k], rm[k]), o) && (o is Some <==> res.contains_key(k)) && (o is Some ==> res[k] == o->0));
        }
    }
}
