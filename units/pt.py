"""Unit PT: eqlog-runtime/src/prefix_tree.rs, arities 0..9, against a set-of-tuples view with the
no-empty-subtree invariant, on top of the WBTreeMap / WBTreeSet contracts (unit WBAPI is the prefix of this
assembly).  Serves C08.  The source repeats one body per arity; the annotations come from one
arity-parametric template, the code is always the real text."""
import os

from kit.assemble import Assembly
from kit.extract import Source
from units import wbapi

HERE = os.path.dirname(os.path.abspath(__file__))
SPECD = os.path.join(HERE, '..', 'spec')

NAME = 'PT'
FILE = 'eqlog-runtime/src/prefix_tree.rs'
RLIMIT = 80
CANARY_RLIMIT = 20
VERUS_EXTRA = ['--no-trait-conflicts']
MAX_ARITY = 9

METHODS0 = ['new', 'insert', 'contains', 'remove', 'is_empty', 'clear', 'union', 'difference']
METHODS1 = ['new', 'insert', 'contains', 'remove', 'is_empty', 'clear', 'get', 'union', 'difference', 'insert_restriction', 'remove_restriction']
METHODSN = ['new', 'insert', 'contains', 'remove', 'is_empty', 'clear', 'get', 'get_mut', 'union', 'difference', 'insert_restriction', 'remove_restriction']


def methods(n):
    return METHODS0 if n == 0 else METHODS1 if n == 1 else METHODSN


def exec_funcs(arities=None):
    ar = range(MAX_ARITY + 1) if arities is None else arities
    return list(wbapi.EXEC_FUNCS) + ['PrefixTree%d::%s' % (n, m) for n in ar for m in methods(n)]


DROPPED = ['#[derive(Clone, Debug)] on the structs (Clone is replaced by an assumed structural clone; Debug is not needed)',
           'struct UnsafeSync, the `empty()` statics, PrefixTree0::non_empty body (declared by contract: returns a tree holding the empty tuple)',
           'iter, iter_restrictions, iter_restrictions_mut, mapped for every arity (iterator adapters; bounded stand-in only)',
           ] + wbapi.DROPPED

ALLOW_TRUSTED = wbapi.ALLOW_TRUSTED + ['assume_specification core::option::Option::<T>::map_or', 'external_body fn non_empty', 'assume_specification core::option::Option::<T>::or']

SAMPLES = [
    'PrefixTreeN::insert(t) -> b: requires wf; ensures final.wf, final@ =~= old@.insert(t@), b == !old@.contains(t@)',
    'PrefixTreeN::remove(t) -> b: requires wf; ensures final.wf (no key maps to an empty subtree), final@ =~= old@.remove(t@), b == old@.contains(t@)',
    'PrefixTreeN::is_empty() -> b: requires wf; ensures b <==> forall t. !self@.contains(t)',
    'PrefixTreeN::get(k) -> r: Some(s) => s@ == { t | [k]++t in self@ } and s non-empty, None => no tuple starts with k',
    'PrefixTreeN::remove_restriction(k, r): ensures final.wf, final@ =~= old@.difference(prefixed(k, r@))',
]

HEADER = wbapi.HEADER

STD = '''
pub assume_specification<T, U, F: FnOnce(T) -> U> [core::option::Option::<T>::map_or] (o: Option<T>, default: U, f: F) -> (r: U)
    requires o is Some ==> f.requires((o->0,)),
    ensures match o { None => r == default, Some(x) => f.ensures((x,), r) };
pub assume_specification<T>[core::option::Option::<T>::or](a: Option<T>, b: Option<T>) -> (r: Option<T>)
    ensures r == (if a is Some { a } else { b });
'''

E = 'ISet::<Seq<u32>>::empty()'


def ghost_impl(n):
    if n == 0:
        return '''
    pub open spec fn view(&self) -> ISet<Seq<u32>> { ISet::new(|t: Seq<u32>| t.len() == 0 && self.0 is Some) }
    pub open spec fn wf(&self) -> bool { true }
    #[verifier::external_body]
    fn non_empty() -> (r: &'static Self) ensures r.0 is Some { unimplemented!() }
'''
    if n == 1:
        return '''
    pub open spec fn view(&self) -> ISet<Seq<u32>> { ISet::new(|t: Seq<u32>| t.len() == 1 && self.set@.contains(t[0])) }
    pub open spec fn wf(&self) -> bool { self.set.wf() }
    pub proof fn lemma_len(&self, t: Seq<u32>) requires self@.contains(t) ensures t.len() == 1 {}
'''
    return '''
    pub open spec fn view(&self) -> ISet<Seq<u32>> {
        ISet::new(|t: Seq<u32>| t.len() == %d && self.map@.contains_key(t[0]) && self.map@[t[0]]@.contains(t.skip(1)))
    }
    /// the inner map is well-formed, every subtree is well-formed, and NO KEY MAPS TO AN EMPTY SUBTREE
    pub open spec fn wf(&self) -> bool {
        self.map.wf() && forall|k: u32| #[trigger] self.map@.contains_key(k) ==> self.map@[k].wf() && nonempty(self.map@[k]@)
    }
    pub proof fn lemma_len(&self, t: Seq<u32>) requires self@.contains(t) ensures t.len() == %d {}
''' % (n, n)


def rest_lit(n):
    return '[' + ', '.join('el%d' % i for i in range(1, n)) + ']'


# ------------------------------------------------------------------------------------------------
# contracts (same text for every arity)

C_NEW = ('r', 'ensures r.wf(), r@ =~= ' + E + ',')
C_INSERT = ('b', '''requires old(self).wf(),
        ensures final(self).wf(), final(self)@ =~= old(self)@.insert(p0__@), b == !old(self)@.contains(p0__@),''')
C_CONTAINS = ('b', '''requires self.wf(),
        ensures b == self@.contains(p0__@),''')
C_REMOVE = ('b', '''requires old(self).wf(),
        ensures final(self).wf(), final(self)@ =~= old(self)@.remove(p0__@), b == old(self)@.contains(p0__@),''')
C_IS_EMPTY = ('b', '''requires self.wf(),
        ensures b <==> (forall|t: Seq<u32>| !self@.contains(t)),''')
C_CLEAR = (None, 'ensures final(self).wf(), final(self)@ =~= ' + E + ',')
C_UNION = ('r', '''requires self.wf(), other.wf(),
        ensures r.wf(), r@ =~= self@.union(other@),''')
C_DIFF = ('r', '''requires self.wf(), other.wf(),
        ensures r.wf(), r@ =~= self@.difference(other@),''')
C_GET = ('r', '''requires self.wf(),
        ensures match r {
            Some(s) => s.wf() && nonempty(s@) && (forall|t: Seq<u32>| #[trigger] s@.contains(t) <==> self@.contains(cons(first_el, t))),
            None => forall|t: Seq<u32>| #[trigger] self@.contains(t) ==> t[0] != first_el,
        },''')
C_GET_MUT = ('r', '''requires old(self).wf(),
        ensures final(self).map.wf(),
            match r {
                Some(s) => old(self).map@.contains_key(first_el) && *s == old(self).map@[first_el] && s.wf() && nonempty(s@)
                    && final(self).map@ == old(self).map@.insert(first_el, *final(s)),
                None => !old(self).map@.contains_key(first_el) && final(self).map@ == old(self).map@,
            },''')
C_INS_RESTR = (None, '''requires old(self).wf(), restriction.wf(),
        ensures final(self).wf(), final(self)@ =~= old(self)@.union(prefixed(el0, restriction@)),''')
C_REM_RESTR = (None, '''requires old(self).wf(), restriction.wf(),
        ensures final(self).wf(), final(self)@ =~= old(self)@.difference(prefixed(el0, restriction@)),''')


def annotate(src, n, canary):
    """annotated fn items of PrefixTree<n>, in METHODS order"""
    out = []
    pat = r'impl PrefixTree%d\s*\{' % n
    nm = 'PrefixTree%d' % n

    def F(fn):
        it, _ = src.fn_in_impls(pat, nm, fn)
        it.attr('#[verifier::spinoff_prover]')
        it.pattern_params()
        out.append(it)
        return it

    def S(it, c, prelude=''):
        it.sig(ret=c[0], spec=c[1], prelude=prelude + ('\nassert(false);' if canary else ''))
        return it

    if n == 0:
        S(F('new'), C_NEW)
        S(F('insert'), C_INSERT, 'proof { assert(p0__@ =~= Seq::<u32>::empty()); }').tail(
            'proof { assert forall|t: Seq<u32>| t.len() == 0 implies t == p0__@ by { assert(t =~= p0__@); } }')
        S(F('contains'), C_CONTAINS, 'proof { assert(p0__@.len() == 0); }')
        S(F('remove'), C_REMOVE, 'proof { assert(p0__@.len() == 0); }').tail(
            'proof { assert forall|t: Seq<u32>| t.len() == 0 implies t == p0__@ by { assert(t =~= p0__@); } }')
        S(F('is_empty'), C_IS_EMPTY, 'proof { if self.0 is Some { assert(self@.contains(Seq::<u32>::empty())); } }')
        S(F('clear'), C_CLEAR)
        S(F('union'), C_UNION)
        S(F('difference'), C_DIFF)
        return out

    if n == 1:
        S(F('new'), C_NEW)
        S(F('insert'), C_INSERT, 'proof { assert(p0__@.len() == 1 && p0__@[0] == el0); }').tail('''proof {
            assert forall|t: Seq<u32>| t.len() == 1 && t[0] == el0 implies t == p0__@ by { assert(t =~= p0__@); }
        }''')
        S(F('contains'), C_CONTAINS, 'proof { assert(p0__@.len() == 1 && p0__@[0] == el0); }')
        S(F('remove'), C_REMOVE, 'proof { assert(p0__@.len() == 1 && p0__@[0] == el0); }').tail('''proof {
            assert forall|t: Seq<u32>| t.len() == 1 && t[0] == el0 implies t == p0__@ by { assert(t =~= p0__@); }
        }''')
        S(F('is_empty'), C_IS_EMPTY, '''proof {
            if !(self.set@ =~= Set::<u32>::empty()) { let x = choose|x: u32| self.set@.contains(x); assert(self@.contains(seq![x])); }
        }''')
        S(F('clear'), C_CLEAR)
        S(F('get'), C_GET).tail('''proof {
            match r__ {
                Some(s) => {
                    assert(s@.contains(Seq::<u32>::empty()));
                    assert forall|t: Seq<u32>| #[trigger] s@.contains(t) <==> self@.contains(cons(first_el, t)) by { lemma_cons(first_el, t); }
                },
                None => {},
            }
        }''')
        S(F('union'), C_UNION)
        S(F('difference'), C_DIFF)
        S(F('insert_restriction'), C_INS_RESTR, '''proof {
            assert forall|t: Seq<u32>| t.len() == 1 implies #[trigger] t.skip(1) == Seq::<u32>::empty() by { assert(t.skip(1) =~= Seq::<u32>::empty()); }
        }''')
        S(F('remove_restriction'), C_REM_RESTR, '''proof {
            assert forall|t: Seq<u32>| t.len() == 1 implies #[trigger] t.skip(1) == Seq::<u32>::empty() by { assert(t.skip(1) =~= Seq::<u32>::empty()); }
        }''')
        return out

    # ---- arity n >= 2: the inner map sends the first column to a PrefixTree<n-1>
    N = str(n)
    REST = rest_lit(n)
    CH = 'PrefixTree%d' % (n - 1)
    ARGS = '''proof {
            assert(p0__@.len() == %s && p0__@[0] == el0);
            assert(%s@ =~= p0__@.skip(1));
        }''' % (N, REST)
    S(F('new'), C_NEW)
    S(F('insert'), C_INSERT, ARGS).tail('''proof {
            let rest = p0__@.skip(1);
            assert(self.map@.contains_key(el0));
            assert(self.map@[el0]@.contains(rest));
            assert forall|t: Seq<u32>| self@.contains(t) <==> old(self)@.insert(p0__@).contains(t) by {
                if t.len() == %s {
                    lemma_head_tail(t, p0__@);
                    if t[0] != el0 && old(self).map@.contains_key(t[0]) { assert(self.map@[t[0]] == old(self).map@[t[0]]); }
                }
            }
            // subtrees under other keys are untouched; what holds under el0 is decided by the postcondition
            assert forall|k: u32| #[trigger] self.map@.contains_key(k) && k != el0 implies self.map@[k].wf() && nonempty(self.map@[k]@) by {
                assert(old(self).map@.contains_key(k) && self.map@[k] == old(self).map@[k]);
            }
        }''' % N)
    S(F('contains'), C_CONTAINS, ARGS).closure('|tree|', '|tree: &%s| -> (cr: bool)' % CH, 'requires tree.wf(), ensures cr == tree@.contains(%s@),' % REST)
    S(F('remove'), C_REMOVE, ARGS).tail('''proof {
            let rest = p0__@.skip(1);
            assert forall|t: Seq<u32>| self@.contains(t) <==> old(self)@.remove(p0__@).contains(t) by {
                if t.len() == %s {
                    lemma_head_tail(t, p0__@);
                    if t[0] != el0 && old(self).map@.contains_key(t[0]) { assert(self.map@.contains_key(t[0]) && self.map@[t[0]] == old(self).map@[t[0]]); }
                }
            }
            assert forall|k: u32| #[trigger] self.map@.contains_key(k) && k != el0 implies self.map@[k].wf() && nonempty(self.map@[k]@) by {
                assert(old(self).map@.contains_key(k) && self.map@[k] == old(self).map@[k]);
            }
        }''' % N)
    S(F('is_empty'), C_IS_EMPTY, '''proof {
            if !(self.map@.dom() =~= Set::<u32>::empty()) {
                let k = choose|k: u32| self.map@.contains_key(k);
                let s = choose|s: Seq<u32>| self.map@[k]@.contains(s);
                lemma_cons(k, s);
                self.map@[k].lemma_len(s);
                assert(self@.contains(cons(k, s)));
            }
        }''')
    S(F('clear'), C_CLEAR)
    S(F('get'), C_GET).tail('''proof {
            match r__ {
                Some(s) => {
                    assert forall|t: Seq<u32>| #[trigger] s@.contains(t) <==> self@.contains(cons(first_el, t)) by {
                        lemma_cons(first_el, t);
                        if s@.contains(t) { s.lemma_len(t); }
                    }
                },
                None => {},
            }
        }''')
    S(F('get_mut'), C_GET_MUT)
    S(F('union'), C_UNION).closure('|_key, val1, val2|', '|_key: &u32, val1: %s, val2: %s| -> (cr: %s)' % (CH, CH, CH),
                                   'requires val1.wf(), val2.wf(), ensures cr.wf(), cr@ =~= val1@.union(val2@),').tail('''proof {
            assert forall|k: u32| #[trigger] r__.map@.contains_key(k) implies r__.map@[k].wf() && nonempty(r__.map@[k]@) by {
                if self.map@.contains_key(k) && other.map@.contains_key(k) {
                    let t = choose|t: Seq<u32>| self.map@[k]@.contains(t);
                    assert(r__.map@[k]@.contains(t));
                } else if self.map@.contains_key(k) { assert(r__.map@[k] == self.map@[k]); } else { assert(r__.map@[k] == other.map@[k]); }
            }
            assert forall|t: Seq<u32>| r__@.contains(t) <==> self@.union(other@).contains(t) by {
                if t.len() == %s {
                    let k = t[0];
                    if self.map@.contains_key(k) && other.map@.contains_key(k) { assert(r__.map@[k]@ =~= self.map@[k]@.union(other.map@[k]@)); }
                    else if self.map@.contains_key(k) { assert(r__.map@[k] == self.map@[k]); }
                    else if other.map@.contains_key(k) { assert(r__.map@[k] == other.map@[k]); }
                    else { assert(!r__.map@.contains_key(k)); }
                }
            }
        }''' % N)
    S(F('difference'), C_DIFF).closure('|_key, val1, val2|', '|_key: &u32, val1: %s, val2: %s| -> (cr: Option<%s>)' % (CH, CH, CH),
                                       '''requires val1.wf(), val2.wf(),
            ensures match cr { Some(d) => d.wf() && nonempty(d@) && d@ =~= val1@.difference(val2@), None => !nonempty(val1@.difference(val2@)) },''').tail('''proof {
            assert forall|k: u32| #[trigger] r__.map@.contains_key(k) implies r__.map@[k].wf() && nonempty(r__.map@[k]@) by {
                assert(self.map@.contains_key(k));
                if !other.map@.contains_key(k) { assert(r__.map@[k] == self.map@[k]); }
            }
            assert forall|t: Seq<u32>| r__@.contains(t) <==> self@.difference(other@).contains(t) by {
                if t.len() == %s {
                    let k = t[0];
                    if self.map@.contains_key(k) && !other.map@.contains_key(k) { assert(r__.map@.contains_key(k) && r__.map@[k] == self.map@[k]); }
                    else if self.map@.contains_key(k) && other.map@.contains_key(k) {
                        if r__.map@.contains_key(k) { assert(r__.map@[k]@ =~= self.map@[k]@.difference(other.map@[k]@)); }
                        else { assert(!self.map@[k]@.difference(other.map@[k]@).contains(t.skip(1))); }
                    } else { assert(!r__.map@.contains_key(k)); }
                }
            }
        }''' % N)
    S(F('insert_restriction'), C_INS_RESTR).tail('''proof {
            // subtrees under other keys are untouched; what happens under el0 is decided by the postcondition, not here
            assert forall|k: u32| #[trigger] self.map@.contains_key(k) && k != el0 implies self.map@[k].wf() && nonempty(self.map@[k]@) by {
                assert(old(self).map@.contains_key(k) && self.map@[k] == old(self).map@[k]);
            }
            if old(self).map@.contains_key(el0) && self.map@.contains_key(el0) {
                let t = choose|t: Seq<u32>| old(self).map@[el0]@.contains(t);
                if self.map@[el0]@ =~= old(self).map@[el0]@.union(restriction@) { assert(self.map@[el0]@.contains(t)); }
            }
            assert forall|t: Seq<u32>| self@.contains(t) <==> old(self)@.union(prefixed(el0, restriction@)).contains(t) by {
                if t.len() == %s {
                    if t[0] != el0 { if old(self).map@.contains_key(t[0]) { assert(self.map@[t[0]] == old(self).map@[t[0]]); } }
                } else if t.len() > 0 && t[0] == el0 && restriction@.contains(t.skip(1)) { restriction.lemma_len(t.skip(1)); }
            }
        }''' % N)
    S(F('remove_restriction'), C_REM_RESTR).tail('''proof {
            assert forall|k: u32| #[trigger] self.map@.contains_key(k) && k != el0 implies self.map@[k].wf() && nonempty(self.map@[k]@) by {
                assert(old(self).map@.contains_key(k) && self.map@[k] == old(self).map@[k]);
            }
            assert forall|t: Seq<u32>| self@.contains(t) <==> old(self)@.difference(prefixed(el0, restriction@)).contains(t) by {
                if t.len() == %s {
                    if t[0] != el0 { if old(self).map@.contains_key(t[0]) { assert(self.map@.contains_key(t[0]) && self.map@[t[0]] == old(self).map@[t[0]]); } }
                    else if old(self).map@.contains_key(el0) {
                        let d = old(self).map@[el0]@.difference(restriction@);
                        if self.map@.contains_key(el0) { if self.map@[el0]@ =~= d { assert(self.map@[el0]@.contains(t.skip(1)) == d.contains(t.skip(1))); } }
                        else { if !nonempty(d) { assert(!d.contains(t.skip(1))); } }
                    }
                }
            }
        }''' % N)
    return out




def build(repo, canary=False, arities=None):
    src = Source(os.path.join(repo, FILE))
    A = Assembly(NAME)
    A.text(HEADER, 'header')
    A.text(STD, 'std specs')
    wbapi.emit(A, repo, canary)
    A.spec(os.path.join(SPECD, 'pt.rs'))
    ar = list(range(MAX_ARITY + 1)) if arities is None else list(arities)
    for n in ar:
        A.item(src.item(r'pub struct PrefixTree%d\b' % n, name='PrefixTree%d' % n))
        A.text('impl Clone for PrefixTree%d { #[verifier::external_body] fn clone(&self) -> (r: Self) ensures r == *self { unimplemented!() } }\n' % n,
               'assumed structural clone')
    for n in ar:
        A.text('impl PrefixTree%d {' % n, 'impl block (ghost members + the real functions of all `impl PrefixTree%d` blocks)' % n)
        A.text(ghost_impl(n), 'ghost view / invariant')
        for it in annotate(src, n, canary):
            A.item(it)
        A.text('}\n', 'impl close')
    A.text('} // verus!\nfn main() {}\n', 'footer')
    return A


# assumed contract of iter() for clients (GEN: move_new_to_old); the function is an iterator-adapter chain outside Verus,
# its order/duplicate-freeness/completeness is bounded-checked by the native sweep of this unit
C_ITER = ('it', '''requires self.wf(),
        ensures it.obeys_prophetic_iter_laws(), it.will_return_none(), it.decrease() is Some,
            forall|t: Seq<u32>| #![trigger self@.contains(t)] self@.contains(t) <==> (exists|i: int| 0 <= i < it.remaining().len() && #[trigger] it.remaining()[i]@ == t),''')

CLIENT_CONTRACTS = {'new': C_NEW, 'insert': C_INSERT, 'contains': C_CONTAINS, 'remove': C_REMOVE, 'is_empty': C_IS_EMPTY, 'clear': C_CLEAR}


def declarations(A, repo, arities, with_iter=False):
    """contract-only declarations of PrefixTreeN for client units (GEN): same contract text as proved above"""
    from units.wbapi import declaration
    src = Source(os.path.join(repo, FILE))
    A.spec(os.path.join(SPECD, 'pt.rs'))
    for n in arities:
        nm = 'PrefixTree%d' % n
        A.text('#[verifier::external_body]\npub struct %s { x: u32 }\n' % nm, nm + ' declared opaque')
        A.text('impl %s {\n    pub uninterp spec fn view(&self) -> ISet<Seq<u32>>;\n    pub uninterp spec fn wf(&self) -> bool;\n'
               '    /// every tuple of the view has length %d (unit PT: by definition of view)\n'
               '    #[verifier::external_body]\n    pub proof fn lemma_len(&self, t: Seq<u32>) requires self@.contains(t) ensures t.len() == %d {}\n' % (nm, n, n),
               'abstract view (uninterpreted here)')
        for fn, c in CLIENT_CONTRACTS.items():
            it, _ = src.fn_in_impls(r'impl PrefixTree%d\s*\{' % n, nm, fn)
            it.pattern_params()
            A.text(declaration(it, c[0], c[1]), 'contract-only declaration of %s::%s' % (nm, fn))
        if with_iter:
            it, _ = src.fn_in_impls(r'impl PrefixTree%d\s*\{' % n, nm, 'iter')
            A.text(declaration(it, C_ITER[0], C_ITER[1], body='{ Vec::<[u32; %d]>::new().into_iter() }' % n), 'ASSUMED contract of %s::iter (bounded-checked only)' % nm)
        A.text('}\n', 'impl close')
