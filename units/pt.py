"""Unit PT: eqlog-runtime/src/prefix_tree.rs, arities 0..9, against a set-of-tuples view with the
no-empty-subtree invariant, on top of the WBTreeMap / WBTreeSet contracts (unit WBAPI is the prefix of this
assembly).  Serves C08.  The source repeats one body per arity; the annotations come from one
arity-parametric template, the code is always the real text."""
import os

from kit.assemble import Assembly
from kit.extract import Source
from units import wbapi

HERE = os.path.dirname(os.path.abspath(__file__))
SPECD = os.path.join(HERE, '..', 'spec')

NAME = 'PT'
FILE = 'eqlog-runtime/src/prefix_tree.rs'
RLIMIT = 80
CANARY_RLIMIT = 20
VERUS_EXTRA = ['--no-trait-conflicts']
MAX_ARITY = 9

METHODS0 = ['new', 'insert', 'contains', 'remove', 'is_empty', 'clear', 'union', 'difference', 'mapped']
METHODS1 = ['new', 'insert', 'contains', 'remove', 'is_empty', 'clear', 'get', 'union', 'difference', 'insert_restriction', 'remove_restriction', 'mapped']
METHODSN = ['new', 'insert', 'contains', 'remove', 'is_empty', 'clear', 'get', 'get_mut', 'union', 'difference', 'insert_restriction', 'remove_restriction', 'mapped']


def methods(n, with_mapped=True):
    m = METHODS0 if n == 0 else METHODS1 if n == 1 else METHODSN
    return m if with_mapped else [x for x in m if x != 'mapped']


def exec_funcs(arities=None):
    ar = range(MAX_ARITY + 1) if arities is None else arities
    wm = 2 in ar and 1 in ar      # `mapped` takes its maps as PrefixTree2 values and reads them through PrefixTree1 restrictions
    return list(wbapi.EXEC_FUNCS) + ['PrefixTree%d::%s' % (n, m) for n in ar for m in methods(n, wm)]


DROPPED = ['#[derive(Clone, Debug)] on the structs (Clone is replaced by an assumed structural clone; Debug is not needed)',
           'struct UnsafeSync, the `empty()` statics, PrefixTree0::non_empty body (declared by contract: returns a tree holding the empty tuple)',
           'iter, iter_restrictions, iter_restrictions_mut for every arity (iterator adapters; bounded stand-in only)',
           ] + wbapi.DROPPED

ALLOW_TRUSTED = wbapi.ALLOW_TRUSTED + ['assume_specification core::option::Option::<T>::map_or', 'external_body fn non_empty', 'assume_specification core::option::Option::<T>::or']

SAMPLES = [
    'PrefixTreeN::insert(t) -> b: requires wf; ensures final.wf, final@ =~= old@.insert(t@), b == !old@.contains(t@)',
    'PrefixTreeN::remove(t) -> b: requires wf; ensures final.wf (no key maps to an empty subtree), final@ =~= old@.remove(t@), b == old@.contains(t@)',
    'PrefixTreeN::is_empty() -> b: requires wf; ensures b <==> forall t. !self@.contains(t)',
    'PrefixTreeN::get(k) -> r: Some(s) => s@ == { t | [k]++t in self@ } and s non-empty, None => no tuple starts with k',
    'PrefixTreeN::remove_restriction(k, r): ensures final.wf, final@ =~= old@.difference(prefixed(k, r@))',
    'PrefixTreeN::mapped(map0..) -> r: requires wf, maps wf; ensures r.wf, r@ =~= { t | exists u in self@. forall i. map_el(map_i, u[i]) == Some(t[i]) } (map_el = identity without a map, else the smallest image)',
]

HEADER = wbapi.HEADER

STD = '''
pub assume_specification<T, U, F: FnOnce(T) -> U> [core::option::Option::<T>::map_or] (o: Option<T>, default: U, f: F) -> (r: U)
    requires o is Some ==> f.requires((o->0,)),
    ensures match o { None => r == default, Some(x) => f.ensures((x,), r) };
pub assume_specification<T>[core::option::Option::<T>::or](a: Option<T>, b: Option<T>) -> (r: Option<T>)
    ensures r == (if a is Some { a } else { b });
'''

E = 'ISet::<Seq<u32>>::empty()'


def ghost_impl(n):
    if n == 0:
        return '''
    #[verifier::opaque]
    pub open spec fn view(&self) -> ISet<Seq<u32>> { ISet::new(|t: Seq<u32>| t.len() == 0 && self.0 is Some) }
    #[verifier::opaque]
    pub open spec fn wf(&self) -> bool { true }
    #[verifier::external_body]
    fn non_empty() -> (r: &'static Self) ensures r.0 is Some { unimplemented!() }
'''
    if n == 1:
        return '''
    #[verifier::opaque]
    pub open spec fn view(&self) -> ISet<Seq<u32>> { ISet::new(|t: Seq<u32>| t.len() == 1 && self.set@.contains(t[0])) }
    #[verifier::opaque]
    pub open spec fn wf(&self) -> bool { self.set.wf() }
    pub proof fn lemma_len(&self, t: Seq<u32>) requires self@.contains(t) ensures t.len() == 1 { reveal(PrefixTree1::view); }
'''
    # view and wf are opaque and revealed per function: a function of arity n sees the definitions of arity n only (the subtrees'
    # views stay abstract), otherwise every query unfolds the whole tower of arities
    return '''
    #[verifier::opaque]
    pub open spec fn view(&self) -> ISet<Seq<u32>> {
        ISet::new(|t: Seq<u32>| t.len() == %d && self.map@.contains_key(t[0]) && self.map@[t[0]]@.contains(t.skip(1)))
    }
    /// the inner map is well-formed, every subtree is well-formed, and NO KEY MAPS TO AN EMPTY SUBTREE
    #[verifier::opaque]
    pub open spec fn wf(&self) -> bool {
        self.map.wf() && forall|k: u32| #[trigger] self.map@.contains_key(k) ==> self.map@[k].wf() && nonempty(self.map@[k]@)
    }
    pub proof fn lemma_len(&self, t: Seq<u32>) requires self@.contains(t) ensures t.len() == %d { reveal(PrefixTree%d::view); }
''' % (n, n, n)



def ghost_mapped(n):
    """ghost members used by the proof of `mapped` (loop vocabulary + the completion lemma)"""
    if n == 0:
        return ''
    if n == 1:
        return """
    /// `s` enumerates the source set and `self` holds exactly the images of the enumerated elements
    pub open spec fn mapped_enum(&self, src: Self, map0: Option<PrefixTree2>, s: Seq<u32>) -> bool {
        &&& forall|i: int| 0 <= i < s.len() ==> src.set@.contains(#[trigger] s[i])
        &&& forall|k: u32| #[trigger] src.set@.contains(k) ==> exists|i: int| 0 <= i < s.len() && #[trigger] s[i] == k
        &&& forall|y: u32| #[trigger] self.set@.contains(y) <==> exists|i: int| 0 <= i < s.len() && #[trigger] map_el(map0, s[i]) == Some(y)
    }
    pub proof fn lemma_mapped_done(&self, src: Self, map0: Option<PrefixTree2>)
        ensures forall|s: Seq<u32>| #[trigger] self.mapped_enum(src, map0, s) ==> self@ =~= mapped_set(src@, seq![map0]),
    {
        reveal(mapped_set); reveal(PrefixTree1::view);
        assert forall|s: Seq<u32>| #[trigger] self.mapped_enum(src, map0, s) implies self@ =~= mapped_set(src@, seq![map0]) by {
            assert forall|t: Seq<u32>| self@.contains(t) <==> mapped_set(src@, seq![map0]).contains(t) by {
                if self@.contains(t) {
                    let i = choose|i: int| 0 <= i < s.len() && #[trigger] map_el(map0, s[i]) == Some(t[0]);
                    let u = seq![s[i]];
                    assert(src@.contains(u));
                    assert(map_el(seq![map0][0], u[0]) == Some(t[0]));
                }
                if mapped_set(src@, seq![map0]).contains(t) {
                    let u = choose|u: Seq<u32>| #[trigger] src@.contains(u) && u.len() == 1 && forall|i: int| 0 <= i < 1 ==> map_el(seq![map0][i], u[i]) == Some(t[i]);
                    assert(map_el(seq![map0][0], u[0]) == Some(t[0]));
                    let i = choose|i: int| 0 <= i < s.len() && #[trigger] s[i] == u[0];
                    assert(map_el(map0, s[i]) == Some(t[0]));
                }
            }
        }
    }
"""
    return """
    /// tuple t arises from the entry e = (k, subtree): its head is the image of k and its tail a mapped tuple of the subtree
    pub open spec fn mapped_hit(e: (u32, &%(CH)s), ms: Seq<Option<PrefixTree2>>, t: Seq<u32>) -> bool {
        t.len() == %(N)d && map_el(ms[0], e.0) == Some(t[0]) && mapped_set(e.1@, ms.skip(1)).contains(t.skip(1))
    }
    /// `s` enumerates the entries of the source's inner map and `self` holds exactly the tuples arising from the enumerated entries
    pub open spec fn mapped_enum(&self, src: Self, ms: Seq<Option<PrefixTree2>>, s: Seq<(u32, &%(CH)s)>) -> bool {
        &&& forall|i: int| 0 <= i < s.len() ==> src.map@.contains_key((#[trigger] s[i]).0) && src.map@[s[i].0] == *s[i].1
        &&& forall|k: u32| #[trigger] src.map@.contains_key(k) ==> exists|i: int| 0 <= i < s.len() && (#[trigger] s[i]).0 == k
        &&& forall|t: Seq<u32>| #[trigger] self@.contains(t) <==> exists|i: int| 0 <= i < s.len() && Self::mapped_hit(#[trigger] s[i], ms, t)
    }
    pub proof fn lemma_mapped_done(&self, src: Self, ms: Seq<Option<PrefixTree2>>)
        requires ms.len() == %(N)d, src.wf(),
        ensures forall|s: Seq<(u32, &%(CH)s)>| #[trigger] self.mapped_enum(src, ms, s) ==> self@ =~= mapped_set(src@, ms),
    {
        let ms1 = ms.skip(1);
        reveal(mapped_set); reveal(PrefixTree%(N)d::view); reveal(PrefixTree%(N)d::wf);
        assert forall|s: Seq<(u32, &%(CH)s)>| #[trigger] self.mapped_enum(src, ms, s) implies self@ =~= mapped_set(src@, ms) by {
            assert forall|t: Seq<u32>| self@.contains(t) <==> mapped_set(src@, ms).contains(t) by {
                if self@.contains(t) {
                    let i = choose|i: int| 0 <= i < s.len() && Self::mapped_hit(#[trigger] s[i], ms, t);
                    let k = s[i].0; let v = *s[i].1;
                    let u1 = choose|u1: Seq<u32>| #[trigger] v@.contains(u1) && u1.len() == ms1.len() && forall|j: int| 0 <= j < ms1.len() ==> map_el(ms1[j], u1[j]) == Some(t.skip(1)[j]);
                    let u = cons(k, u1);
                    lemma_cons(k, u1);
                    assert(src@.contains(u));
                    assert forall|j: int| 0 <= j < ms.len() implies map_el(ms[j], u[j]) == Some(t[j]) by {
                        if j > 0 { assert(ms[j] == ms1[j - 1] && u[j] == u1[j - 1] && t[j] == t.skip(1)[j - 1]); }
                    }
                }
                if mapped_set(src@, ms).contains(t) {
                    let u = choose|u: Seq<u32>| #[trigger] src@.contains(u) && u.len() == ms.len() && forall|j: int| 0 <= j < ms.len() ==> map_el(ms[j], u[j]) == Some(t[j]);
                    let k = u[0]; let u1 = u.skip(1);
                    let i = choose|i: int| 0 <= i < s.len() && (#[trigger] s[i]).0 == k;
                    let v = *s[i].1;
                    assert(v@.contains(u1));
                    assert forall|j: int| 0 <= j < ms1.len() implies map_el(ms1[j], u1[j]) == Some(t.skip(1)[j]) by {
                        assert(ms1[j] == ms[j + 1] && u1[j] == u[j + 1] && t.skip(1)[j] == t[j + 1]);
                    }
                    assert(mapped_set(v@, ms1).contains(t.skip(1)));
                    assert(Self::mapped_hit(s[i], ms, t));
                }
            }
        }
    }
""" % dict(CH='PrefixTree%d' % (n - 1), N=n)


def c_mapped(n):
    maps = ['map%d' % i for i in range(n)]
    ms = 'seq![' + ', '.join(maps) + ']' if n else 'Seq::<Option<PrefixTree2>>::empty()'
    req = 'requires ' + ', '.join(['self.wf()'] + ['mwf(%s)' % m for m in maps]) + ','
    return ('r', req + '\n        ensures r.wf(), r@ =~= mapped_set(self@, %s),' % ms)


def annotate_mapped(F, S, n):
    maps = ['map%d' % i for i in range(n)]
    MS = 'seq![' + ', '.join(maps) + ']'
    MS1 = 'seq![' + ', '.join(maps[1:]) + ']'
    if n == 0:
        S(F('mapped'), c_mapped(0)).tail("""proof {
            let e = Seq::<Option<PrefixTree2>>::empty();
            reveal(mapped_set);
            assert forall|t: Seq<u32>| self@.contains(t) <==> mapped_set(self@, e).contains(t) by {
                if mapped_set(self@, e).contains(t) {
                    let u = choose|u: Seq<u32>| #[trigger] self@.contains(u) && u.len() == 0;
                    assert(u =~= t);
                }
            }
        }""")
        return
    if n == 1:
        it = S(F('mapped'), c_mapped(1))
        it.wrap('None => ', 'self.clone()', """proof {
                    reveal(mapped_set);
                    assert forall|t: Seq<u32>| self@.contains(t) <==> mapped_set(self@, seq![map0]).contains(t) by {
                        if self@.contains(t) { assert(map_el(seq![map0][0], t[0]) == Some(t[0])); }
                        if mapped_set(self@, seq![map0]).contains(t) {
                            let u = choose|u: Seq<u32>| #[trigger] self@.contains(u) && u.len() == 1 && forall|i: int| 0 <= i < 1 ==> map_el(seq![map0][i], u[i]) == Some(t[i]);
                            assert(map_el(seq![map0][0], u[0]) == Some(t[0]));
                            assert(u =~= t);
                        }
                    }
                }""")
        it.after('let mut result = Self::new();', """proof {
                    assert forall|y: u32| !result.set@.contains(y) by { if result.set@.contains(y) { assert(result@.contains(seq![y])); } }
                }""")
        it.for_loop(1, """invariant gi.iter.obeys_prophetic_iter_laws(), result.wf(), self.wf(), map.wf(), map0 == Some(map),
                        forall|i: int| 0 <= i < gi.seq().len() ==> self.set@.contains(#[trigger] gi.seq()[i]),
                        forall|k: u32| #[trigger] self.set@.contains(k) ==> exists|i: int| 0 <= i < gi.seq().len() && #[trigger] gi.seq()[i] == k,
                        forall|y: u32| #[trigger] result.set@.contains(y) <==> exists|i: int| 0 <= i < gi.index@ && #[trigger] map_el(map0, gi.seq()[i]) == Some(y),
                        gi.index@ == gi.seq().len() ==> result.mapped_enum(*self, map0, gi.seq()),""")
        it.loop_body_start(1, """let ghost res0 = result;
                    proof { reveal(PrefixTree1::view); reveal(PrefixTree1::wf); assert(gi.seq()[gi.index@] == el); }""")
        it.after('result.set.insert(mapped);', 'proof { if set_min(restriction.set@, mapped) { lemma_first_is_min(map, el, *restriction, mapped); } }')
        it.loop_body_end(1, """proof {
                        if !(exists|t: Seq<u32>| map@.contains(t) && t[0] == el) { lemma_none_no_img(map, el); }
                        assert forall|y: u32| #[trigger] result.set@.contains(y) <==> exists|i: int| 0 <= i < gi.index@ + 1 && #[trigger] map_el(map0, gi.seq()[i]) == Some(y) by {
                            if res0.set@.contains(y) { let i = choose|i: int| 0 <= i < gi.index@ && #[trigger] map_el(map0, gi.seq()[i]) == Some(y); assert(0 <= i < gi.index@ + 1); }
                            if exists|i: int| 0 <= i < gi.index@ + 1 && #[trigger] map_el(map0, gi.seq()[i]) == Some(y) {
                                let i = choose|i: int| 0 <= i < gi.index@ + 1 && #[trigger] map_el(map0, gi.seq()[i]) == Some(y);
                                if i < gi.index@ { assert(res0.set@.contains(y)); }
                            }
                        }
                    }""")
        # after the loop: the enumeration is complete, the completion lemma turns the loop invariant into the postcondition
        it.before('result\n            }', 'proof { result.lemma_mapped_done(*self, map0); }')
        return
    # the maps are read through PrefixTree1 restrictions (`restriction.set`), so that definition is needed here too
    it = S(F('mapped'), c_mapped(n), 'proof { reveal(PrefixTree1::view); reveal(PrefixTree1::wf); }')
    it.for_loop(1, """invariant gi.iter.obeys_prophetic_iter_laws(), result.wf(), self.wf(), %(mwf)s,
                forall|i: int| 0 <= i < gi.seq().len() ==> self.map@.contains_key((#[trigger] gi.seq()[i]).0) && self.map@[gi.seq()[i].0] == *gi.seq()[i].1,
                forall|k: u32| #[trigger] self.map@.contains_key(k) ==> exists|i: int| 0 <= i < gi.seq().len() && (#[trigger] gi.seq()[i]).0 == k,
                forall|t: Seq<u32>| #[trigger] result@.contains(t) <==> exists|i: int| 0 <= i < gi.index@ && Self::mapped_hit(#[trigger] gi.seq()[i], %(MS)s, t),
                gi.index@ == gi.seq().len() ==> result.mapped_enum(*self, %(MS)s, gi.seq()),""" % dict(mwf=', '.join('mwf(%s)' % m for m in maps), MS=MS))
    it.loop_body_start(1, """let ghost res0 = result;
            proof { reveal(PrefixTree%d::view); reveal(PrefixTree%d::wf); reveal(PrefixTree1::wf); assert(gi.seq()[gi.index@] == p__); }""" % (n, n))
    it.closure('|restriction|', '|restriction: &PrefixTree1| -> (cr: Option<u32>)',
               """requires restriction.set.wf(), nonempty(restriction@), forall|t: Seq<u32>| #[trigger] restriction@.contains(t) <==> map@.contains(cons(k, t)),
                        ensures cr == map_el(Some(*map), k),""",
               tail="""proof {
                            reveal(PrefixTree1::view);
                            let w = choose|t: Seq<u32>| restriction@.contains(t);
                            assert(restriction.set@.contains(w[0]));
                            if cr__ is Some && set_min(restriction.set@, cr__->0) { lemma_first_is_min(*map, k, *restriction, cr__->0); }
                        }""")
    it.before('if let Some(new_k) = new_k_opt {', """proof {
                if map0 is Some && !(exists|t: Seq<u32>| map0->0@.contains(t) && t[0] == k) { lemma_none_no_img(map0->0, k); }
            }""")
    it.loop_body_end(1, """proof {
                let ms = %(MS)s;
                assert(ms.skip(1) =~= %(MS1)s);
                assert forall|t: Seq<u32>| #[trigger] result@.contains(t) <==> exists|i: int| 0 <= i < gi.index@ + 1 && Self::mapped_hit(#[trigger] gi.seq()[i], ms, t) by {
                    if res0@.contains(t) { let i = choose|i: int| 0 <= i < gi.index@ && Self::mapped_hit(#[trigger] gi.seq()[i], ms, t); assert(0 <= i < gi.index@ + 1); }
                    if exists|i: int| 0 <= i < gi.index@ + 1 && Self::mapped_hit(#[trigger] gi.seq()[i], ms, t) {
                        let i = choose|i: int| 0 <= i < gi.index@ + 1 && Self::mapped_hit(#[trigger] gi.seq()[i], ms, t);
                        if i < gi.index@ { assert(res0@.contains(t)); }
                    }
                    if result@.contains(t) { result.lemma_len(t); }
                }
            }""" % dict(MS=MS, MS1=MS1))
    # after the loop: the enumeration is complete, the completion lemma turns the loop invariant into the postcondition
    it.tail('proof { r__.lemma_mapped_done(*self, %s); }' % MS)


def rest_lit(n):
    return '[' + ', '.join('el%d' % i for i in range(1, n)) + ']'


# ------------------------------------------------------------------------------------------------
# contracts (same text for every arity)

C_NEW = ('r', 'ensures r.wf(), r@ =~= ' + E + ',')
C_INSERT = ('b', '''requires old(self).wf(),
        ensures final(self).wf(), final(self)@ =~= old(self)@.insert(p0__@), b == !old(self)@.contains(p0__@),''')
C_CONTAINS = ('b', '''requires self.wf(),
        ensures b == self@.contains(p0__@),''')
C_REMOVE = ('b', '''requires old(self).wf(),
        ensures final(self).wf(), final(self)@ =~= old(self)@.remove(p0__@), b == old(self)@.contains(p0__@),''')
C_IS_EMPTY = ('b', '''requires self.wf(),
        ensures b <==> (forall|t: Seq<u32>| !self@.contains(t)),''')
C_CLEAR = (None, 'ensures final(self).wf(), final(self)@ =~= ' + E + ',')
C_UNION = ('r', '''requires self.wf(), other.wf(),
        ensures r.wf(), r@ =~= self@.union(other@),''')
C_DIFF = ('r', '''requires self.wf(), other.wf(),
        ensures r.wf(), r@ =~= self@.difference(other@),''')
C_GET = ('r', '''requires self.wf(),
        ensures match r {
            Some(s) => s.wf() && nonempty(s@) && (forall|t: Seq<u32>| #[trigger] s@.contains(t) <==> self@.contains(cons(first_el, t))),
            None => forall|t: Seq<u32>| #[trigger] self@.contains(t) ==> t[0] != first_el,
        },''')
C_GET_MUT = ('r', '''requires old(self).wf(),
        ensures final(self).map.wf(),
            match r {
                Some(s) => old(self).map@.contains_key(first_el) && *s == old(self).map@[first_el] && s.wf() && nonempty(s@)
                    && final(self).map@ == old(self).map@.insert(first_el, *final(s)),
                None => !old(self).map@.contains_key(first_el) && final(self).map@ == old(self).map@,
            },''')
C_INS_RESTR = (None, '''requires old(self).wf(), restriction.wf(),
        ensures final(self).wf(), final(self)@ =~= old(self)@.union(prefixed(el0, restriction@)),''')
C_REM_RESTR = (None, '''requires old(self).wf(), restriction.wf(),
        ensures final(self).wf(), final(self)@ =~= old(self)@.difference(prefixed(el0, restriction@)),''')


def annotate(src, n, canary, with_mapped=True):
    """annotated fn items of PrefixTree<n>, in METHODS order"""
    out = []
    pat = r'impl PrefixTree%d\s*\{' % n
    nm = 'PrefixTree%d' % n

    def F(fn):
        it, _ = src.fn_in_impls(pat, nm, fn)
        it.attr('#[verifier::spinoff_prover]')
        it.pattern_params()
        out.append(it)
        return it

    REVEAL = 'proof { reveal(PrefixTree%d::view); reveal(PrefixTree%d::wf); }\n' % (n, n)
    if n == 1:      # PrefixTree0 (the restrictions of a PrefixTree1) is a bare Option<()>: its two definitions are revealed as well
        REVEAL += 'proof { reveal(PrefixTree0::view); reveal(PrefixTree0::wf); }\n'

    def S(it, c, prelude=''):
        it.sig(ret=c[0], spec=c[1], prelude=REVEAL + prelude + ('\nassert(false);' if canary else ''))
        return it

    if n == 0:
        S(F('new'), C_NEW)
        S(F('insert'), C_INSERT, 'proof { assert(p0__@ =~= Seq::<u32>::empty()); }').tail(
            'proof { assert forall|t: Seq<u32>| t.len() == 0 implies t == p0__@ by { assert(t =~= p0__@); } }')
        S(F('contains'), C_CONTAINS, 'proof { assert(p0__@.len() == 0); }')
        S(F('remove'), C_REMOVE, 'proof { assert(p0__@.len() == 0); }').tail(
            'proof { assert forall|t: Seq<u32>| t.len() == 0 implies t == p0__@ by { assert(t =~= p0__@); } }')
        S(F('is_empty'), C_IS_EMPTY, 'proof { if self.0 is Some { assert(self@.contains(Seq::<u32>::empty())); } }')
        S(F('clear'), C_CLEAR)
        S(F('union'), C_UNION)
        S(F('difference'), C_DIFF)
        if with_mapped:
            annotate_mapped(F, S, 0)
        return out

    if n == 1:
        S(F('new'), C_NEW)
        S(F('insert'), C_INSERT, 'proof { assert(p0__@.len() == 1 && p0__@[0] == el0); }').tail('''proof {
            assert forall|t: Seq<u32>| t.len() == 1 && t[0] == el0 implies t == p0__@ by { assert(t =~= p0__@); }
        }''')
        S(F('contains'), C_CONTAINS, 'proof { assert(p0__@.len() == 1 && p0__@[0] == el0); }')
        S(F('remove'), C_REMOVE, 'proof { assert(p0__@.len() == 1 && p0__@[0] == el0); }').tail('''proof {
            assert forall|t: Seq<u32>| t.len() == 1 && t[0] == el0 implies t == p0__@ by { assert(t =~= p0__@); }
        }''')
        S(F('is_empty'), C_IS_EMPTY, '''proof {
            if !(self.set@ =~= Set::<u32>::empty()) { let x = choose|x: u32| self.set@.contains(x); assert(self@.contains(seq![x])); }
        }''')
        S(F('clear'), C_CLEAR)
        S(F('get'), C_GET).tail('''proof {
            match r__ {
                Some(s) => {
                    assert(s@.contains(Seq::<u32>::empty()));
                    assert forall|t: Seq<u32>| #[trigger] s@.contains(t) <==> self@.contains(cons(first_el, t)) by { lemma_cons(first_el, t); }
                },
                None => {},
            }
        }''')
        S(F('union'), C_UNION)
        S(F('difference'), C_DIFF)
        S(F('insert_restriction'), C_INS_RESTR, '''proof {
            assert forall|t: Seq<u32>| t.len() == 1 implies #[trigger] t.skip(1) == Seq::<u32>::empty() by { assert(t.skip(1) =~= Seq::<u32>::empty()); }
        }''')
        S(F('remove_restriction'), C_REM_RESTR, '''proof {
            assert forall|t: Seq<u32>| t.len() == 1 implies #[trigger] t.skip(1) == Seq::<u32>::empty() by { assert(t.skip(1) =~= Seq::<u32>::empty()); }
        }''')
        if with_mapped:
            annotate_mapped(F, S, 1)
        return out

    # ---- arity n >= 2: the inner map sends the first column to a PrefixTree<n-1>
    N = str(n)
    REST = rest_lit(n)
    CH = 'PrefixTree%d' % (n - 1)
    ARGS = '''proof {
            assert(p0__@.len() == %s && p0__@[0] == el0);
            assert(%s@ =~= p0__@.skip(1));
        }''' % (N, REST)
    S(F('new'), C_NEW)
    S(F('insert'), C_INSERT, ARGS).tail('''proof {
            let rest = p0__@.skip(1);
            assert(self.map@.contains_key(el0));
            assert(self.map@[el0]@.contains(rest));
            assert forall|t: Seq<u32>| self@.contains(t) <==> old(self)@.insert(p0__@).contains(t) by {
                if t.len() == %s {
                    lemma_head_tail(t, p0__@);
                    if t[0] != el0 && old(self).map@.contains_key(t[0]) { assert(self.map@[t[0]] == old(self).map@[t[0]]); }
                }
            }
            // subtrees under other keys are untouched; what holds under el0 is decided by the postcondition
            assert forall|k: u32| #[trigger] self.map@.contains_key(k) && k != el0 implies self.map@[k].wf() && nonempty(self.map@[k]@) by {
                assert(old(self).map@.contains_key(k) && self.map@[k] == old(self).map@[k]);
            }
        }''' % N)
    S(F('contains'), C_CONTAINS, ARGS).closure('|tree|', '|tree: &%s| -> (cr: bool)' % CH, 'requires tree.wf(), ensures cr == tree@.contains(%s@),' % REST)
    S(F('remove'), C_REMOVE, ARGS).tail('''proof {
            let rest = p0__@.skip(1);
            assert forall|t: Seq<u32>| self@.contains(t) <==> old(self)@.remove(p0__@).contains(t) by {
                if t.len() == %s {
                    lemma_head_tail(t, p0__@);
                    if t[0] != el0 && old(self).map@.contains_key(t[0]) { assert(self.map@.contains_key(t[0]) && self.map@[t[0]] == old(self).map@[t[0]]); }
                }
            }
            assert forall|k: u32| #[trigger] self.map@.contains_key(k) && k != el0 implies self.map@[k].wf() && nonempty(self.map@[k]@) by {
                assert(old(self).map@.contains_key(k) && self.map@[k] == old(self).map@[k]);
            }
        }''' % N)
    S(F('is_empty'), C_IS_EMPTY, '''proof {
            if !(self.map@.dom() =~= Set::<u32>::empty()) {
                let k = choose|k: u32| self.map@.contains_key(k);
                let s = choose|s: Seq<u32>| self.map@[k]@.contains(s);
                lemma_cons(k, s);
                self.map@[k].lemma_len(s);
                assert(self@.contains(cons(k, s)));
            }
        }''')
    S(F('clear'), C_CLEAR)
    S(F('get'), C_GET).tail('''proof {
            match r__ {
                Some(s) => {
                    assert forall|t: Seq<u32>| #[trigger] s@.contains(t) <==> self@.contains(cons(first_el, t)) by {
                        lemma_cons(first_el, t);
                        if s@.contains(t) { s.lemma_len(t); }
                    }
                },
                None => {},
            }
        }''')
    S(F('get_mut'), C_GET_MUT)
    S(F('union'), C_UNION).closure('|_key, val1, val2|', '|_key: &u32, val1: %s, val2: %s| -> (cr: %s)' % (CH, CH, CH),
                                   'requires val1.wf(), val2.wf(), ensures cr.wf(), cr@ =~= val1@.union(val2@),').tail('''proof {
            assert forall|k: u32| #[trigger] r__.map@.contains_key(k) implies r__.map@[k].wf() && nonempty(r__.map@[k]@) by {
                if self.map@.contains_key(k) && other.map@.contains_key(k) {
                    let t = choose|t: Seq<u32>| self.map@[k]@.contains(t);
                    assert(r__.map@[k]@.contains(t));
                } else if self.map@.contains_key(k) { assert(r__.map@[k] == self.map@[k]); } else { assert(r__.map@[k] == other.map@[k]); }
            }
            assert forall|t: Seq<u32>| r__@.contains(t) <==> self@.union(other@).contains(t) by {
                if t.len() == %s {
                    let k = t[0];
                    if self.map@.contains_key(k) && other.map@.contains_key(k) { assert(r__.map@[k]@ =~= self.map@[k]@.union(other.map@[k]@)); }
                    else if self.map@.contains_key(k) { assert(r__.map@[k] == self.map@[k]); }
                    else if other.map@.contains_key(k) { assert(r__.map@[k] == other.map@[k]); }
                    else { assert(!r__.map@.contains_key(k)); }
                }
            }
        }''' % N)
    S(F('difference'), C_DIFF).closure('|_key, val1, val2|', '|_key: &u32, val1: %s, val2: %s| -> (cr: Option<%s>)' % (CH, CH, CH),
                                       '''requires val1.wf(), val2.wf(),
            ensures match cr { Some(d) => d.wf() && nonempty(d@) && d@ =~= val1@.difference(val2@), None => !nonempty(val1@.difference(val2@)) },''').tail('''proof {
            assert forall|k: u32| #[trigger] r__.map@.contains_key(k) implies r__.map@[k].wf() && nonempty(r__.map@[k]@) by {
                assert(self.map@.contains_key(k));
                if !other.map@.contains_key(k) { assert(r__.map@[k] == self.map@[k]); }
            }
            assert forall|t: Seq<u32>| r__@.contains(t) <==> self@.difference(other@).contains(t) by {
                if t.len() == %s {
                    let k = t[0];
                    if self.map@.contains_key(k) && !other.map@.contains_key(k) { assert(r__.map@.contains_key(k) && r__.map@[k] == self.map@[k]); }
                    else if self.map@.contains_key(k) && other.map@.contains_key(k) {
                        if r__.map@.contains_key(k) { assert(r__.map@[k]@ =~= self.map@[k]@.difference(other.map@[k]@)); }
                        else { assert(!self.map@[k]@.difference(other.map@[k]@).contains(t.skip(1))); }
                    } else { assert(!r__.map@.contains_key(k)); }
                }
            }
        }''' % N)
    S(F('insert_restriction'), C_INS_RESTR).tail('''proof {
            // subtrees under other keys are untouched; what happens under el0 is decided by the postcondition, not here
            assert forall|k: u32| #[trigger] self.map@.contains_key(k) && k != el0 implies self.map@[k].wf() && nonempty(self.map@[k]@) by {
                assert(old(self).map@.contains_key(k) && self.map@[k] == old(self).map@[k]);
            }
            if old(self).map@.contains_key(el0) && self.map@.contains_key(el0) {
                let t = choose|t: Seq<u32>| old(self).map@[el0]@.contains(t);
                if self.map@[el0]@ =~= old(self).map@[el0]@.union(restriction@) { assert(self.map@[el0]@.contains(t)); }
            }
            assert forall|t: Seq<u32>| self@.contains(t) <==> old(self)@.union(prefixed(el0, restriction@)).contains(t) by {
                if t.len() == %s {
                    if t[0] != el0 { if old(self).map@.contains_key(t[0]) { assert(self.map@[t[0]] == old(self).map@[t[0]]); } }
                } else if t.len() > 0 && t[0] == el0 && restriction@.contains(t.skip(1)) { restriction.lemma_len(t.skip(1)); }
            }
        }''' % N)
    S(F('remove_restriction'), C_REM_RESTR).tail('''proof {
            assert forall|k: u32| #[trigger] self.map@.contains_key(k) && k != el0 implies self.map@[k].wf() && nonempty(self.map@[k]@) by {
                assert(old(self).map@.contains_key(k) && self.map@[k] == old(self).map@[k]);
            }
            assert forall|t: Seq<u32>| self@.contains(t) <==> old(self)@.difference(prefixed(el0, restriction@)).contains(t) by {
                if t.len() == %s {
                    if t[0] != el0 { if old(self).map@.contains_key(t[0]) { assert(self.map@.contains_key(t[0]) && self.map@[t[0]] == old(self).map@[t[0]]); } }
                    else if old(self).map@.contains_key(el0) {
                        let d = old(self).map@[el0]@.difference(restriction@);
                        if self.map@.contains_key(el0) { if self.map@[el0]@ =~= d { assert(self.map@[el0]@.contains(t.skip(1)) == d.contains(t.skip(1))); } }
                        else { if !nonempty(d) { assert(!d.contains(t.skip(1))); } }
                    }
                }
            }
        }''' % N)
    if with_mapped:
        annotate_mapped(F, S, n)
    return out




def build(repo, canary=False, arities=None):
    src = Source(os.path.join(repo, FILE))
    A = Assembly(NAME)
    A.text(HEADER, 'header')
    A.text(STD, 'std specs')
    wbapi.emit(A, repo, canary)
    A.spec(os.path.join(SPECD, 'pt.rs'))
    ar = list(range(MAX_ARITY + 1)) if arities is None else list(arities)
    wm = 1 in ar and 2 in ar
    if wm:
        A.spec(os.path.join(SPECD, 'pt_mapped.rs'))
    for n in ar:
        A.item(src.item(r'pub struct PrefixTree%d\b' % n, name='PrefixTree%d' % n))
        A.text('impl Clone for PrefixTree%d { #[verifier::external_body] fn clone(&self) -> (r: Self) ensures r == *self { unimplemented!() } }\n' % n,
               'assumed structural clone')
    for n in ar:
        A.text('impl PrefixTree%d {' % n, 'impl block (ghost members + the real functions of all `impl PrefixTree%d` blocks)' % n)
        A.text(ghost_impl(n), 'ghost view / invariant')
        if wm:
            A.text(ghost_mapped(n), 'ghost vocabulary and completion lemma of `mapped`')
        for it in annotate(src, n, canary, wm):
            A.item(it)
        A.text('}\n', 'impl close')
    A.text('} // verus!\nfn main() {}\n', 'footer')
    return A


# assumed contract of iter() for clients (GEN: move_new_to_old); the function is an iterator-adapter chain outside Verus,
# its order/duplicate-freeness/completeness is bounded-checked by the native sweep of this unit
C_ITER = ('it', '''requires self.wf(),
        ensures it.obeys_prophetic_iter_laws(), it.will_return_none(), it.decrease() is Some,
            forall|t: Seq<u32>| #![trigger self@.contains(t)] self@.contains(t) <==> (exists|i: int| 0 <= i < it.remaining().len() && #[trigger] it.remaining()[i]@ == t),''')

CLIENT_CONTRACTS = {'new': C_NEW, 'insert': C_INSERT, 'contains': C_CONTAINS, 'remove': C_REMOVE, 'is_empty': C_IS_EMPTY, 'clear': C_CLEAR}


def declarations(A, repo, arities, with_iter=False, with_get=False):
    """contract-only declarations of PrefixTreeN for client units (GEN): same contract text as proved above"""
    from units.wbapi import declaration
    src = Source(os.path.join(repo, FILE))
    A.spec(os.path.join(SPECD, 'pt.rs'))
    for n in arities:
        nm = 'PrefixTree%d' % n
        A.text('#[verifier::external_body]\npub struct %s { x: u32 }\n' % nm, nm + ' declared opaque')
        A.text('impl %s {\n    pub uninterp spec fn view(&self) -> ISet<Seq<u32>>;\n    pub uninterp spec fn wf(&self) -> bool;\n'
               '    /// every tuple of the view has length %d (unit PT: by definition of view)\n'
               '    #[verifier::external_body]\n    pub proof fn lemma_len(&self, t: Seq<u32>) requires self@.contains(t) ensures t.len() == %d {}\n' % (nm, n, n),
               'abstract view (uninterpreted here)')
        for fn, c in CLIENT_CONTRACTS.items():
            it, _ = src.fn_in_impls(r'impl PrefixTree%d\s*\{' % n, nm, fn)
            it.pattern_params()
            A.text(declaration(it, c[0], c[1]), 'contract-only declaration of %s::%s' % (nm, fn))
        if with_get and n >= 2:
            it, _ = src.fn_in_impls(r'impl PrefixTree%d\s*\{' % n, nm, 'get')
            A.text(declaration(it, C_GET[0], C_GET[1]), 'contract-only declaration of %s::get' % nm)
        if with_iter:
            it, _ = src.fn_in_impls(r'impl PrefixTree%d\s*\{' % n, nm, 'iter')
            A.text(declaration(it, C_ITER[0], C_ITER[1], body='{ Vec::<[u32; %d]>::new().into_iter() }' % n), 'ASSUMED contract of %s::iter (bounded-checked only)' % nm)
        A.text('}\n', 'impl close')
