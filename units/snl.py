"""Unit SNL: the counting lemma of C16 over the age matrix (all premise lengths).  No executable code:
the link to the real to_semi_naive is its executable contract (exec/sn), which checks that the emitted ages
ARE this matrix on the bounded domain."""
import os
from kit.assemble import Assembly
HERE = os.path.dirname(os.path.abspath(__file__))
NAME = 'SNL'
RLIMIT = 30
LEMMA_ONLY = True
EXEC_FUNCS = []
ALLOW_TRUSTED = []
DROPPED = []
SAMPLES = ['lemma_semi_naive_partition(lab): forall i < n. enumerates(i, lab) <==> (some_new(lab) && i == last_new(lab))',
           'lemma_functionality(l0, l1): the (New, All) rule enumerates an instance in some orientation iff one of its two tuples is new']


def build(repo, canary=False):
    A = Assembly(NAME)
    A.text('use vstd::prelude::*;\nverus! {\n', 'header')
    A.spec(os.path.join(HERE, '..', 'spec', 'snl.rs'))
    A.text('} // verus!\nfn main() {}\n', 'footer')
    return A
