"""Unit GEN: the straight-line API functions of the module the compiler emits for each probe theory
(/verif/probes/*.eql), against contracts GENERATED from the emitted struct's field names (kit/gen.py), on top
of the contracts of Unification (unit UF) and PrefixTreeN (unit PT).  Serves C04 and the generated half of C05.
Programs are sampled (the probes); states, arguments and call histories are universal (inductive invariant)."""
import glob
import os
import re

from kit import gen as G
from kit.assemble import Assembly
from kit.extract import Source
from units import pt, uf

HERE = os.path.dirname(os.path.abspath(__file__))
PROBES = os.path.join(HERE, '..', 'probes')

NAME = 'GEN'
RLIMIT = 80
CANARY_RLIMIT = 20
VERUS_EXTRA = []

ALLOW_TRUSTED_RX = [r'^assume_specification core::option::Option::<T>::or_else', r'^assume_specification (BTreeMap::<K,V,A>::entry|std::collections::btree_map::Entry::<\'a,K,V,A>::or_default)$', r'^external_body (fn|struct) ', r'^external_type_specification', r'^uninterp fn (view|wf|spec_len|rep|ent_key|ent_old|ent_fin)$',
                    r'^accept_recursive_types', r'^global size_of']

HEADER = '''#![feature(allocator_api)]
#![allow(unused_imports, unused_variables, dead_code, unused_mut, unused_parens, unused_braces, non_snake_case)]
use vstd::prelude::*;
use vstd::std_specs::convert::*;
use vstd::std_specs::cmp::*;
use std::collections::BTreeMap;
use vstd::std_specs::iter::IteratorSpec;
verus! {

global size_of usize == 8;

// ---- std functions used by the emitted code whose effect is irrelevant to the contracts (element index, weights)
#[verifier::external_type_specification]
#[verifier::external_body]
#[verifier::reject_recursive_types(K)]
#[verifier::reject_recursive_types(V)]
#[verifier::reject_recursive_types(A)]
pub struct ExBTreeEntry<'a, K: 'a, V: 'a, A: std::alloc::Allocator + Clone>(std::collections::btree_map::Entry<'a, K, V, A>);

// BTreeMap as a finite map (element index `<rel>_<type>_element_index: BTreeMap<u32, Vec<row>>`): `m.entry(k).or_default()` hands out the list
// stored under k (an unspecified fresh list if there is none) and whatever is written through it becomes the value under k; no other key changes
pub open spec fn bt_view<K, V, A: std::alloc::Allocator + Clone>(m: &BTreeMap<K, V, A>) -> Map<K, V> { m@ }      // vstd's view of BTreeMap
pub uninterp spec fn ent_key<'a, K, V, A: std::alloc::Allocator + Clone>(e: &std::collections::btree_map::Entry<'a, K, V, A>) -> K;
pub uninterp spec fn ent_old<'a, K, V, A: std::alloc::Allocator + Clone>(e: &std::collections::btree_map::Entry<'a, K, V, A>) -> Map<K, V>;
pub uninterp spec fn ent_fin<'a, K, V, A: std::alloc::Allocator + Clone>(e: &std::collections::btree_map::Entry<'a, K, V, A>) -> Map<K, V>;
pub assume_specification<'a, K: Ord, V, A: std::alloc::Allocator + Clone> [BTreeMap::<K, V, A>::entry] (m: &'a mut BTreeMap<K, V, A>, key: K) -> (e: std::collections::btree_map::Entry<'a, K, V, A>)
    ensures ent_key(&e) == key, ent_old(&e) == bt_view(old(m)), ent_fin(&e) == bt_view(final(m));
pub assume_specification<'a, K: Ord, V: Default, A: std::alloc::Allocator + Clone> [std::collections::btree_map::Entry::<'a, K, V, A>::or_default] (e: std::collections::btree_map::Entry<'a, K, V, A>) -> (v: &'a mut V)
    ensures ent_old(&e).contains_key(ent_key(&e)) ==> *v == ent_old(&e)[ent_key(&e)],
        ent_fin(&e) == ent_old(&e).insert(ent_key(&e), *final(v));
// Option::or_else (evaluation functions): the alternative is only computed, and then returned, when the receiver is None
pub assume_specification<T, F: FnOnce() -> Option<T>>[core::option::Option::<T>::or_else](o: Option<T>, f: F) -> (r: Option<T>)
    requires o is None ==> f.requires(()),
    ensures match o { Some(x) => r == o, None => f.ensures((), r) };
'''

DROPPED = ['rule functions and their Env structs (extern "Rust", loops over runtime iterators)', 'ModelDelta and its apply_* functions (drain)',
           'close, close_until, canonicalize, recompute_model_indices (generated loop code)', 'iter_* (iterator adapter chains)',
           'impl Display for the newtypes, `use` lines, weight constants are kept']


SAMPLES = [
    'GENERATED inv(self): every copy C of relation R satisfies C@ =~= { s | |s| = m && t_R_age.contains(tupN(s[a_0], .., s[a_N-1])) } (image of the primary copy; a diagonal copy holds exactly the rows satisfying ALL its equalities); components < n; type sets == roots',
    'insert_<rel>(el..): requires inv, el_i < n; ensures inv, t_<rel>() =~= old.t_<rel>().insert(tupN(root(el_0), ..)), every other relation / type / flag unchanged',
    '<pred>(arg..) -> b: ensures b == t_<pred>().contains(tupN(root_spec(arg_0).0, ..))  (hence invariant under replacing an argument by an equal element)',
    'equate_<t>(l, r): ensures inv, rep\' merges exactly the classes of l and r (either orientation), i ~\' j <=> i ~ j \\/ (i ~ l /\\ r ~ j) \\/ (i ~ r /\\ l ~ j), loser pushed to uprooted, tables unchanged',
    'is_dirty() -> b: ensures b == (flag || some t_<rel>_new non-empty || some new type set non-empty || some uprooted list non-empty)',
    '<func>(arg..) -> res: requires inv; ensures match res { Some(y) => y < n && t_<func>().contains(tupN(root(arg_0), .., y)), None => forall y. !t_<func>().contains(tupN(root(arg_0), .., y)) }',
    'define_<func>(el..) -> res: existing value when defined (model unchanged), otherwise a fresh element with t_<func> extended by exactly that row',
    'GENERATED inv also holds: t_<rel>_new and t_<rel>_old are disjoint (the new/old PARTITION); every row of t_<rel> is listed in <rel>_<type>_element_index under each of its components of that type',
    'move_new_to_old(): ensures inv, t_<rel>_old() =~= old.t_<rel>_old() u old.t_<rel>_new(), every new copy (all orders, all diagonal patterns, new type sets) empty, flag cleared, type sets / rep unchanged',
]

ASSUMPTIONS = [
    'programs are sampled: the contracts are proved for the module emitted for each probe theory in /verif/probes, for all states, arguments and call histories',
    'runtime contracts: Unification (proved in unit UF) and PrefixTreeN::{new, insert, contains, remove, is_empty, clear} (proved in unit PT) are declared by the same contract text',
    'derived Copy/Clone/PartialEq of the emitted newtypes are structural',
    'BTreeMap (element index) is a finite map: the view vstd gives BTreeMap plus assumed specifications of entry(k).or_default() (hands out the list under k, or an unspecified fresh one; what is written through it becomes the value under k; no other key changes)',
    'NOT covered: canonicalize, recompute_model_indices, the rule functions, iter_*; model-scoped (_own/_all) indices (close/close_until: return-value contract only, unit GEN-close)',
    'part GEN-move (C04): move_new_to_old is proved against an ASSUMED contract of PrefixTreeN::iter (obeys the iterator laws; yields exactly the tuples of the view), which is an iterator-adapter chain outside Verus and is bounded-checked by the native sweep of unit PT',
    'the evaluation functions <func>(..) -> Option<_> (real text: closures with `?`, prefix lookups, first item of the remaining column) and define_<func> are proved against the contracts of PrefixTreeN::get (proved in unit PT) and an ASSUMED contract of PrefixTreeN::iter (obeys the iterator laws; yields exactly the tuples of the view; an adapter chain outside Verus, bounded-checked by the native sweep of unit PT)',
    'the field-naming convention of display_index_field_name (the contract generator reads names)',
    'usize is 64 bit',
]


def probe_files():
    return sorted(glob.glob(os.path.join(PROBES, '*.eql')))


def ei_spec(n):
    return """
/// the row is listed under element e in a per-element row list
pub open spec fn ei_has%(n)d(m: &BTreeMap<u32, Vec<[u32; %(n)d]>>, e: u32, row: Seq<u32>) -> bool {
    bt_view(m).contains_key(e) && exists|j: int| 0 <= j < bt_view(m)[e]@.len() && (#[trigger] bt_view(m)[e]@[j])@ == row
}
/// `m.entry(k).or_default().push(x)`: x is listed under k afterwards and nothing that was listed is lost
pub proof fn lemma_ei_push%(n)d(m0: &BTreeMap<u32, Vec<[u32; %(n)d]>>, m1: &BTreeMap<u32, Vec<[u32; %(n)d]>>, k: u32, x: [u32; %(n)d])
    requires
        bt_view(m1) == bt_view(m0).insert(k, bt_view(m1)[k]),
        bt_view(m0).contains_key(k) ==> bt_view(m1)[k]@ == bt_view(m0)[k]@.push(x),
        bt_view(m1)[k]@.len() > 0 && bt_view(m1)[k]@.last() == x,
    ensures
        ei_has%(n)d(m1, k, x@),
        forall|e: u32, row: Seq<u32>| ei_has%(n)d(m0, e, row) ==> ei_has%(n)d(m1, e, row),
{
    let l = bt_view(m1)[k]@;
    assert(l[l.len() - 1]@ == x@);
    assert forall|e: u32, row: Seq<u32>| ei_has%(n)d(m0, e, row) implies ei_has%(n)d(m1, e, row) by {
        let j = choose|j: int| 0 <= j < bt_view(m0)[e]@.len() && (#[trigger] bt_view(m0)[e]@[j])@ == row;
        if e == k { assert(bt_view(m1)[e]@[j] == bt_view(m0)[e]@[j]); } else { assert(bt_view(m1)[e] == bt_view(m0)[e]); }
        assert(bt_view(m1)[e]@[j]@ == row);
    }
}
""" % {'n': n}


def type_spec_impls(T):
    return '''
impl IntoSpecImpl<u32> for %(T)s {
    open spec fn obeys_into_spec() -> bool { true }
    open spec fn into_spec(self) -> u32 { self.0 }
}
impl FromSpecImpl<u32> for %(T)s {
    open spec fn obeys_from_spec() -> bool { true }
    open spec fn from_spec(x: u32) -> Self { %(T)s(x) }
}
impl PartialEqSpecImpl for %(T)s {
    open spec fn obeys_eq_spec() -> bool { true }
    open spec fn eq_spec(&self, other: &%(T)s) -> bool { self.0 == other.0 }
}
pub proof fn lemma_laws_%(T)s() ensures t_laws::<%(T)s>(), forall|v: %(T)s| #[trigger] ix(v) == v.0, forall|i: int| 0 <= i <= u32::MAX ==> #[trigger] el_of::<%(T)s>(i) == %(T)s(i as u32) {}
''' % {'T': T}


class Funcs:
    """annotation of the emitted functions of one model"""

    def __init__(self, model, canary, with_define=False, with_move=False):
        self.m = model
        self.canary = canary
        self.with_define = with_define
        self.with_move = with_move
        self.items = []
        self.names = []
        self.decls = []
        self.skipped = []
        self.eval_names = []
        self.define_c = {}
        self.enum_names = []

    def fn(self, name):
        it = self.m.src.fn(name, within=self.m.impl, name='%s::%s::%s' % (self.m.name.lower(), self.m.name, name))
        it.attr('#[verifier::spinoff_prover]')
        return it

    def emit(self, it, c, prelude=''):
        laws = ' '.join('lemma_laws_%s();' % T for T in self.m.types.values())
        it.sig(ret=c[0], spec=c[1], prelude='proof { %s }\n%s%s' % (laws, prelude, '\nassert(false);' if self.canary else ''))
        self.items.append(it)
        self.names.append(it.name)
        return it

    def all(self):
        m = self.m
        # ---- new
        c = ['r.inv()', 'r.dirty_flag()']
        for t in m.types:
            c += ['r.n_%s() == 0' % t, 'r.uprooted_%s().len() == 0' % t, 'forall|i: u32| !r.in_ts_%s(i)' % t]
        for r in m.rels:
            c += ['forall|t: Seq<u32>| !r.t_%s().contains(t)' % r]
        self.emit(self.fn('new'), ('r', 'ensures ' + ',\n            '.join(c) + ','))
        for t, T in m.types.items():
            self.type_fns(t, T)
        for r in m.rels:
            self.rel_fns(r)
        if self.with_define:
            for t, T in m.types.items():
                self.enum_new_fn(t, T)
        # ---- is_dirty
        parts = ['self.dirty_flag()'] + ['nonempty(self.t_%s_new())' % r for r in m.rels]
        for t in m.types:
            parts += ['(exists|i: u32| self.in_ts_new_%s(i))' % t, 'self.uprooted_%s().len() > 0' % t]
        hints = []
        for r in m.rels:
            hints.append('if nonempty(self.t_%s_new()) { let t = choose|t: Seq<u32>| self.t_%s_new().contains(t); }' % (r, r))
        self.emit(self.fn('is_dirty'), ('b', 'requires self.inv(),\n        ensures b == (%s),' % '\n            || '.join(parts)),
                  self.is_dirty_hints())
        if self.with_move:
            n_items, n_names, n_decls = len(self.items), len(self.names), len(self.decls)
            try:
                self.move_fn()
            except G.Unsupported as e:
                # this model's move_new_to_old has a shape the contract generator does not cover: leave it out (stated in the evidence)
                del self.items[n_items:], self.names[n_names:], self.decls[n_decls:]
                self.skipped.append('%s::move_new_to_old: %s' % (self.m.name, e))
        return self.items


    # ------------------------------------------------------------------------------------------------
    # move_new_to_old: every old copy becomes old u new (same order), every new copy and new type set becomes empty
    def move_fn(self):
        m = self.m
        it = self.fn('move_new_to_old')
        it.attr('#[verifier::loop_isolation(false)]')
        body = it.orig
        loops = [(mm.group(1), mm.group(2)) for mm in re.finditer(r'for (\[[^\]]*\]|\w+) in self\.(\w+)\.iter\(\) \{', body)]
        tree_fields = [f for f, ty in m.fields if ty.startswith('PrefixTree')]
        other_fields = [f for f, ty in m.fields if not ty.startswith('PrefixTree')]
        post = ['final(self).inv()', '!final(self).dirty_flag()']
        for r in m.rels:
            post += ['final(self).t_%s_old() =~= old(self).t_%s_old().union(old(self).t_%s_new())' % (r, r, r), 'forall|t: Seq<u32>| !final(self).t_%s_new().contains(t)' % r]
        for t in m.types:
            post += ['final(self).n_%s() == old(self).n_%s()' % (t, t), 'forall|i: int| final(self).rep_%s(i) == old(self).rep_%s(i)' % (t, t),
                     'forall|i: u32| final(self).in_ts_%s(i) == old(self).in_ts_%s(i)' % (t, t), 'forall|i: u32| !final(self).in_ts_new_%s(i)' % t,
                     'final(self).uprooted_%s() == old(self).uprooted_%s()' % (t, t)]
        self.emit(it, (None, 'requires old(self).inv(),\n        ensures %s,' % ',\n            '.join(post)), '')
        final_hints = ['proof {']
        for k, (pat, field) in enumerate(loops, start=1):
            # which relation / type set is this?
            cs = [c for c in m.copies if c.field == field]
            ts = [t for t, d in m.typesets.items() if d.get('new') == field]
            if cs:
                P = cs[0]
                r = P.rel
                n = len(m.rels[r])
                olds = [c for c in m.copies if c.rel == r and c.age == 'old']
                mP, aP = G.copy_index_map(m, P)
                xs = ['x[%d]' % a for a in aP]          # canonical components from a stored tuple x of P
                mods = [c.field for c in olds]
                inv = ['gi.iter.obeys_prophetic_iter_laws()']
                inv += ['self.%s == pre%d.%s' % (f, k, f) for f in tree_fields + other_fields if f not in mods]
                inv += ['forall|i: int| 0 <= i < gi.seq().len() ==> pre%d.%s@.contains(#[trigger] gi.seq()[i]@)' % (k, field),
                        'forall|t: Seq<u32>| #[trigger] pre%d.%s@.contains(t) ==> (exists|i: int| 0 <= i < gi.seq().len() && #[trigger] gi.seq()[i]@ == t)' % (k, field)]
                body_hint = ['proof {', '    assert(gi.seq()[gi.index@] == p__);', '    pre%d.%s.lemma_len(p__@);' % (k, field)]
                for c in olds:
                    st = G.stored_of_canonical(m, c, xs)
                    mv = G.seq_lit(st)
                    ok = G.diag_condition(m, c, xs) if c.eqs is not None else 'true'
                    D = {'f': c.field, 'k': k}
                    inv.append('self.%s.wf()' % c.field)
                    inv.append('forall|s: Seq<u32>| #[trigger] self.%(f)s@.contains(s) <==> (pre%(k)d.%(f)s@.contains(s) || exists|i: int| 0 <= i < gi.index@ && Self::ok%(k)d_%(f)s(gi.seq()[i]@) && #[trigger] Self::mv%(k)d_%(f)s(gi.seq()[i]@) == s)' % D)
                    self.decls.append('    pub open spec fn mv%d_%s(x: Seq<u32>) -> Seq<u32> { %s }\n    /// the row belongs into this (diagonal) copy\n    pub open spec fn ok%d_%s(x: Seq<u32>) -> bool { %s }\n' % (k, c.field, mv, k, c.field, ok))
                    els = G.stored_of_canonical(m, c, ['el%d' % i for i in range(n)])
                    okel = G.diag_condition(m, c, ['el%d' % i for i in range(n)]) if c.eqs is not None else 'true'
                    body_hint.append('    assert([%s]@ =~= Self::mv%d_%s(p__@));' % (', '.join(els), k, c.field))
                    body_hint.append('    assert(Self::ok%d_%s(p__@) == (%s));' % (k, c.field, okel))
                    body_hint.append('    assert forall|s: Seq<u32>| #[trigger] self.%(f)s@.contains(s) <==> (pre%(k)d.%(f)s@.contains(s) || exists|i: int| 0 <= i < gi.index@ + 1 && Self::ok%(k)d_%(f)s(gi.seq()[i]@) && #[trigger] Self::mv%(k)d_%(f)s(gi.seq()[i]@) == s) by {' % D)
                    body_hint.append('        if b__.%(f)s@.contains(s) && !pre%(k)d.%(f)s@.contains(s) { let i = choose|i: int| 0 <= i < gi.index@ && Self::ok%(k)d_%(f)s(gi.seq()[i]@) && #[trigger] Self::mv%(k)d_%(f)s(gi.seq()[i]@) == s; assert(0 <= i < gi.index@ + 1); }' % D)
                    body_hint.append('        if s == Self::mv%(k)d_%(f)s(p__@) && Self::ok%(k)d_%(f)s(p__@) { assert(Self::mv%(k)d_%(f)s(gi.seq()[gi.index@]@) == s); }' % D)
                    body_hint.append('        if exists|i: int| 0 <= i < gi.index@ + 1 && Self::ok%(k)d_%(f)s(gi.seq()[i]@) && #[trigger] Self::mv%(k)d_%(f)s(gi.seq()[i]@) == s { let i = choose|i: int| 0 <= i < gi.index@ + 1 && Self::ok%(k)d_%(f)s(gi.seq()[i]@) && #[trigger] Self::mv%(k)d_%(f)s(gi.seq()[i]@) == s; if i < gi.index@ { assert(b__.%(f)s@.contains(s)); } }' % D)
                    body_hint.append('    }')
                body_hint.append('}')
                forline = 'for %s in self.%s.iter() {' % (pat, field)
                # the first copy cleared after this loop (the new copies of the relation are cleared in declaration order, not starting with the iterated one)
                mclear = re.search(r'\}\nself\.(\w+)\.clear\(\);', body[body.index(forline):])
                if not mclear:
                    raise G.Unsupported('move_new_to_old: no clear() after the loop over %s' % field)
                first_clear = mclear.group(1)
                it.before(forline, 'let ghost pre%d = *self;' % k)
                it.for_loop(k, 'invariant ' + ',\n                '.join(inv) + ',')
                it.after(forline, 'let ghost b__ = *self;')
                # end of the loop body = right before the closing brace that precedes the first clear after the loop
                it.before('}\nself.%s.clear();' % first_clear, '\n'.join(body_hint))
                # summary after the loop
                summ = ['proof {']
                for c in olds:
                    summ.append('    assert forall|s: Seq<u32>| #[trigger] self.%(f)s@.contains(s) <==> (pre%(k)d.%(f)s@.contains(s) || exists|x: Seq<u32>| #[trigger] pre%(k)d.%(P)s@.contains(x) && Self::ok%(k)d_%(f)s(x) && Self::mv%(k)d_%(f)s(x) == s) by {' % {'f': c.field, 'k': k, 'P': field})
                    summ.append('        if exists|x: Seq<u32>| #[trigger] pre%(k)d.%(P)s@.contains(x) && Self::ok%(k)d_%(f)s(x) && Self::mv%(k)d_%(f)s(x) == s { let x = choose|x: Seq<u32>| #[trigger] pre%(k)d.%(P)s@.contains(x) && Self::ok%(k)d_%(f)s(x) && Self::mv%(k)d_%(f)s(x) == s; }' % {'f': c.field, 'k': k, 'P': field})
                    summ.append('    }')
                summ.append('}')
                it.before('self.%s.clear();' % first_clear, 'let ghost sm%d = *self;\n' % k + '\n'.join(summ).replace('self.', 'sm%d.' % k))
                # ---- final reasoning for this relation (identity-ordered primaries only)
                PO = m.primary(r, 'old')
                PN = m.primary(r, 'new')
                fh = final_hints
                fh.append('    // ---- %s' % r)
                identity = P.order == list(range(n)) and P is PN and PO.order == list(range(n))
                if identity:
                    fh.append('    assert forall|t: Seq<u32>| #[trigger] self.t_%(r)s_old().contains(t) <==> (old(self).t_%(r)s_old().contains(t) || old(self).t_%(r)s_new().contains(t)) by {' % {'r': r})
                    fh.append('        if old(self).t_%(r)s_new().contains(t) { pre%(k)d.%(P)s.lemma_len(t); assert(pre%(k)d.%(P)s@.contains(t)); assert(Self::mv%(k)d_%(PO)s(t) =~= t); }' % {'r': r, 'k': k, 'P': field, 'PO': PO.field})
                    fh.append('        if exists|x: Seq<u32>| #[trigger] pre%(k)d.%(P)s@.contains(x) && Self::ok%(k)d_%(PO)s(x) && Self::mv%(k)d_%(PO)s(x) == t { let x = choose|x: Seq<u32>| #[trigger] pre%(k)d.%(P)s@.contains(x) && Self::ok%(k)d_%(PO)s(x) && Self::mv%(k)d_%(PO)s(x) == t; pre%(k)d.%(P)s.lemma_len(x); assert(Self::mv%(k)d_%(PO)s(x) =~= x); }' % {'k': k, 'P': field, 'PO': PO.field})
                    fh.append('    }')
                    fh.append('    assert(self.t_%(r)s_old() =~= old(self).t_%(r)s_old().union(old(self).t_%(r)s_new()));' % {'r': r})
                    fh.append('    assert forall|t: Seq<u32>| !self.t_%(r)s_new().contains(t) by {}' % {'r': r})
                    for c in olds:
                        if c is PO:
                            continue
                        mO, aO = G.copy_index_map(m, c)
                        cO = G.seq_lit(['s[%d]' % a for a in aO])
                        fh.append('    assert forall|s: Seq<u32>| #[trigger] self.%(f)s@.contains(s) <==> (s.len() == %(m)d && self.t_%(r)s_old().contains(%(cO)s)) by {' % {'f': c.field, 'm': mO, 'r': r, 'cO': cO})
                        fh.append('        let t = %s;' % cO)
                        fh.append('        if s.len() == %(m)d && old(self).t_%(r)s_new().contains(t) { assert(pre%(k)d.%(P)s@.contains(t)); assert(Self::ok%(k)d_%(f)s(t)); assert(Self::mv%(k)d_%(f)s(t) =~= s); }' % {'m': mO, 'r': r, 'k': k, 'P': field, 'f': c.field})
                        fh.append('        if exists|x: Seq<u32>| #[trigger] pre%(k)d.%(P)s@.contains(x) && Self::ok%(k)d_%(f)s(x) && Self::mv%(k)d_%(f)s(x) == s { let x = choose|x: Seq<u32>| #[trigger] pre%(k)d.%(P)s@.contains(x) && Self::ok%(k)d_%(f)s(x) && Self::mv%(k)d_%(f)s(x) == s; pre%(k)d.%(P)s.lemma_len(x); assert(%(cOmv)s =~= x); }'
                                  % {'k': k, 'P': field, 'f': c.field, 'cOmv': G.seq_lit(['Self::mv%d_%s(x)[%d]' % (k, c.field, a) for a in aO])})
                        fh.append('        assert(old(self).%(f)s@.contains(s) <==> (s.len() == %(m)d && old(self).t_%(r)s_old().contains(t)));' % {'f': c.field, 'm': mO, 'r': r})
                        fh.append('    }')
                        fh.append('        assert(self.%(f)s@ =~= ISet::new(|s: Seq<u32>| s.len() == %(m)d && self.t_%(r)s_old().contains(%(cO)s)));' % {'f': c.field, 'm': mO, 'r': r, 'cO': cO})
                else:
                    # general case: the iterated new copy P (any plain copy, any column order; related to t_<r>_new by definition when it is the
                    # primary copy and by inv otherwise) and the old primary copy PO (any column order).  stP(t) / stO(t) = the tuple stored in
                    # P / PO for canonical t; canP(x) = the canonical tuple of a tuple x stored in P
                    if P.eqs is not None:
                        raise G.Unsupported('move_new_to_old: the iterated copy of %s is a diagonal copy' % r)
                    def stP(comps):
                        return G.seq_lit(G.stored_of_canonical(m, P, comps))
                    def stO(comps):
                        return G.seq_lit(G.stored_of_canonical(m, PO, comps))
                    def canP(x):
                        return G.seq_lit(['%s[%d]' % (x, a) for a in aP])
                    mPO, aPO = G.copy_index_map(m, PO)
                    tcomps = ['t[%d]' % i for i in range(n)]
                    D0 = {'r': r, 'k': k, 'P': field, 'PO': PO.field, 'n': n, 'stP': stP(tcomps), 'stO': stO(tcomps), 'canPsP': canP('sP'), 'canPx': canP('x'),
                          'backO': stP(['Self::mv%d_%s(x)[%d]' % (k, PO.field, a) for a in aPO]), 'canOsO': G.seq_lit(['sO[%d]' % a for a in aPO])}
                    fh.append('    assert forall|x: Seq<u32>| #[trigger] pre%(k)d.%(P)s@.contains(x) implies x.len() == %(n)d && old(self).t_%(r)s_new().contains(%(canPx)s) by { pre%(k)d.%(P)s.lemma_len(x); assert(%(stPcanPx)s =~= x); }' % dict(D0, stPcanPx=stP(['%s[%d]' % (canP('x'), i) for i in range(n)])))
                    fh.append('    assert forall|t: Seq<u32>| #[trigger] self.t_%(r)s_old().contains(t) <==> (old(self).t_%(r)s_old().contains(t) || old(self).t_%(r)s_new().contains(t)) by {' % D0)
                    fh.append('        if old(self).t_%(r)s_new().contains(t) { assert(old(self).t_%(r)s().contains(t)); }' % D0)
                    fh.append('        if old(self).t_%(r)s_old().contains(t) { assert(old(self).t_%(r)s().contains(t)); }' % D0)
                    fh.append('        if self.%(PO)s@.contains(t) { self.%(PO)s.lemma_len(t); }' % D0)
                    fh.append('        if t.len() == %(n)d {' % D0)
                    fh.append('            let sP = %(stP)s; let sO = %(stO)s;' % D0)
                    fh.append('            assert(%(canPsP)s =~= t); assert(%(canOsO)s =~= t);' % D0)
                    if PO.order == list(range(n)):
                        fh.append('            assert(sO =~= t);')
                    fh.append('            if old(self).t_%(r)s_new().contains(t) { assert(pre%(k)d.%(P)s@.contains(sP)); assert(Self::ok%(k)d_%(PO)s(sP)); assert(Self::mv%(k)d_%(PO)s(sP) =~= sO); assert(sm%(k)d.%(PO)s@.contains(sO)); assert(self.%(PO)s@.contains(sO)); }' % D0)
                    fh.append('            if old(self).t_%(r)s_old().contains(t) { assert(pre%(k)d.%(PO)s@.contains(sO)); assert(sm%(k)d.%(PO)s@.contains(sO)); assert(self.%(PO)s@.contains(sO)); }' % D0)
                    fh.append('            if exists|x: Seq<u32>| #[trigger] pre%(k)d.%(P)s@.contains(x) && Self::ok%(k)d_%(PO)s(x) && Self::mv%(k)d_%(PO)s(x) == sO { let x = choose|x: Seq<u32>| #[trigger] pre%(k)d.%(P)s@.contains(x) && Self::ok%(k)d_%(PO)s(x) && Self::mv%(k)d_%(PO)s(x) == sO; pre%(k)d.%(P)s.lemma_len(x); assert(%(backO)s =~= x); assert(x =~= sP); assert(%(canPx)s =~= t); }' % D0)
                    fh.append('        }')
                    fh.append('    }')
                    fh.append('    assert(self.t_%(r)s_old() =~= old(self).t_%(r)s_old().union(old(self).t_%(r)s_new()));' % D0)
                    fh.append('    assert forall|t: Seq<u32>| !self.t_%(r)s_new().contains(t) by {}' % D0)
                    for c in olds:
                        if c is PO:
                            continue
                        mO, aO = G.copy_index_map(m, c)
                        cO = G.seq_lit(['s[%d]' % a for a in aO])
                        x0 = stP(['s[%d]' % a for a in aO])
                        D1 = dict(D0, f=c.field, m=mO, cO=cO, stcO=x0, canPx0=canP('x0'),
                                  back=stP(['Self::mv%d_%s(x)[%d]' % (k, c.field, a) for a in aO]))
                        fh.append('    assert forall|s: Seq<u32>| #[trigger] self.%(f)s@.contains(s) <==> (s.len() == %(m)d && self.t_%(r)s_old().contains(%(cO)s)) by {' % D1)
                        fh.append('        let t = %(cO)s;' % D1)
                        fh.append('        if self.%(f)s@.contains(s) { self.%(f)s.lemma_len(s); }' % D1)
                        fh.append('        if s.len() == %(m)d && old(self).t_%(r)s_new().contains(t) { let x0 = %(stcO)s; assert(%(canPx0)s =~= t); assert(pre%(k)d.%(P)s@.contains(x0)); assert(Self::ok%(k)d_%(f)s(x0)); assert(Self::mv%(k)d_%(f)s(x0) =~= s); }' % D1)
                        fh.append('        if exists|x: Seq<u32>| #[trigger] pre%(k)d.%(P)s@.contains(x) && Self::ok%(k)d_%(f)s(x) && Self::mv%(k)d_%(f)s(x) == s { let x = choose|x: Seq<u32>| #[trigger] pre%(k)d.%(P)s@.contains(x) && Self::ok%(k)d_%(f)s(x) && Self::mv%(k)d_%(f)s(x) == s; pre%(k)d.%(P)s.lemma_len(x); assert(%(back)s =~= x); assert(%(canPx)s =~= t); }' % D1)
                        fh.append('        assert(old(self).%(f)s@.contains(s) <==> (s.len() == %(m)d && old(self).t_%(r)s_old().contains(t)));' % D1)
                        fh.append('    }')
                        fh.append('    assert(self.%(f)s@ =~= ISet::new(|s: Seq<u32>| s.len() == %(m)d && self.t_%(r)s_old().contains(%(cO)s)));' % D1)
                for c in m.copies:
                    if c.rel == r and c.age == 'new' and c is not P:
                        mN, aN = G.copy_index_map(m, c)
                        fh.append('    assert(self.%(f)s@ =~= ISet::new(|s: Seq<u32>| s.len() == %(m)d && self.t_%(r)s_new().contains(%(cO)s)));' % {'f': c.field, 'm': mN, 'r': r, 'cO': G.seq_lit(['s[%d]' % a for a in aN])})
                fh.append('    assert forall|t: Seq<u32>| #[trigger] self.t_%(r)s().contains(t) implies t.len() == %(n)d%(b)s by { assert(old(self).t_%(r)s().contains(t)); }'
                          % {'r': r, 'n': n, 'b': ''.join(' && t[%d] < self.n_%s()' % (i, m.rel_types[r][i]) for i in range(n))})
                fh += ['    ' + x for x in self.ei_same(r)]
            elif ts:
                t = ts[0]
                oldf = m.typesets[t].get('old')
                inv = ['gi.iter.obeys_prophetic_iter_laws()']
                inv += ['self.%s == pre%d.%s' % (f, k, f) for f in tree_fields + other_fields if f != oldf]
                inv += ['forall|i: int| 0 <= i < gi.seq().len() ==> pre%d.%s@.contains(#[trigger] gi.seq()[i]@)' % (k, field),
                        'forall|t: Seq<u32>| #[trigger] pre%d.%s@.contains(t) ==> (exists|i: int| 0 <= i < gi.seq().len() && #[trigger] gi.seq()[i]@ == t)' % (k, field)]
                inv.append('self.%s.wf()' % oldf)
                inv.append('forall|s: Seq<u32>| #[trigger] self.%s@.contains(s) <==> (pre%d.%s@.contains(s) || exists|i: int| 0 <= i < gi.index@ && #[trigger] gi.seq()[i]@ == s)' % (oldf, k, oldf))
                forline = 'for %s in self.%s.iter() {' % (pat, field)
                it.before(forline, 'let ghost pre%d = *self;' % k)
                it.for_loop(k, 'invariant ' + ',\n                '.join(inv) + ',')
                it.after(forline, 'let ghost b__ = *self;')
                it.before('}\nself.%s.clear();' % field, '''proof {
    assert(gi.seq()[gi.index@] == %(v)s);
    assert forall|s: Seq<u32>| #[trigger] self.%(f)s@.contains(s) <==> (pre%(k)d.%(f)s@.contains(s) || exists|i: int| 0 <= i < gi.index@ + 1 && #[trigger] gi.seq()[i]@ == s) by {
        if b__.%(f)s@.contains(s) && !pre%(k)d.%(f)s@.contains(s) { let i = choose|i: int| 0 <= i < gi.index@ && #[trigger] gi.seq()[i]@ == s; assert(0 <= i < gi.index@ + 1); }
        if s == %(v)s@ { assert(gi.seq()[gi.index@]@ == s); }
        if exists|i: int| 0 <= i < gi.index@ + 1 && #[trigger] gi.seq()[i]@ == s { let i = choose|i: int| 0 <= i < gi.index@ + 1 && #[trigger] gi.seq()[i]@ == s; if i < gi.index@ { assert(b__.%(f)s@.contains(s)); } }
    }
}''' % {'f': oldf, 'k': k, 'v': pat})
                it.before('self.%s.clear();' % field, 'let ghost sm%(k)d = *self;\nproof { assert forall|s: Seq<u32>| #[trigger] sm%(k)d.%(f)s@.contains(s) <==> (pre%(k)d.%(f)s@.contains(s) || pre%(k)d.%(P)s@.contains(s)) by { } }' % {'f': oldf, 'k': k, 'P': field})
                final_hints.append('    assert forall|i: u32| #[trigger] self.in_ts_%(t)s(i) <==> old(self).in_ts_%(t)s(i) by { assert(sm%(k)d.%(f)s@.contains(tup1(i)) <==> (pre%(k)d.%(f)s@.contains(tup1(i)) || pre%(k)d.%(P)s@.contains(tup1(i)))); }' % {'t': t, 'k': k, 'f': oldf, 'P': field})
                final_hints.append('    assert forall|i: u32| #[trigger] self.in_ts_%(t)s(i) <==> self.is_root_%(t)s(i) by { assert(old(self).in_ts_%(t)s(i) <==> old(self).is_root_%(t)s(i)); }' % {'t': t})
                final_hints.append('    assert forall|i: u32| !self.in_ts_new_%(t)s(i) by {}' % {'t': t})
            else:
                raise G.Unsupported('move_new_to_old: loop over %s is not understood' % field)
        final_hints.append('}')
        it.at_end('\n'.join(final_hints))
        return it

    def is_dirty_hints(self):
        m = self.m
        h = ['proof {']
        # find which field the code tests for each relation; relate it to the primary copy through inv
        body = self.m.src.fn('is_dirty', within=m.impl).orig
        for r in m.rels:
            n = len(m.rels[r])
            for c in m.copies:
                if c.rel == r and c.age == 'new' and re.search(r'self\.%s\.is_empty\(\)' % re.escape(c.field), body):
                    p = m.primary(r, 'new')
                    mm, a = G.copy_index_map(m, c)
                    if c is p and p.order == list(range(n)):
                        continue
                    # nonempty(T) <==> nonempty(copy)
                    st = G.stored_of_canonical(m, c, ['t[%d]' % i for i in range(n)])
                    h.append('    if nonempty(self.t_%s_new()) { let t = choose|t: Seq<u32>| self.t_%s_new().contains(t); assert(self.t_%s().contains(t)); assert(%s =~= t); assert(self.%s@.contains(%s)); }'
                             % (r, r, r, G.seq_lit(['%s[%d]' % (G.seq_lit(st), x) for x in a]), c.field, G.seq_lit(st)))
                    canon_s = G.seq_lit(['s[%d]' % x for x in a])
                    st_of_canon = G.seq_lit(G.stored_of_canonical(m, c, ['%s[%d]' % (canon_s, i) for i in range(n)]))
                    h.append('    if exists|s: Seq<u32>| self.%(f)s@.contains(s) { let s = choose|s: Seq<u32>| self.%(f)s@.contains(s); self.%(f)s.lemma_len(s); assert(%(sc)s =~= s); assert(self.t_%(r)s_new().contains(%(cs)s)); }'
                             % {'f': c.field, 'sc': st_of_canon, 'r': r, 'cs': canon_s})
        for t in m.types:
            f = m.typesets.get(t, {}).get('new')
            if f:
                h.append('    if exists|i: u32| self.in_ts_new_%s(i) { let i = choose|i: u32| self.in_ts_new_%s(i); assert(self.%s@.contains(tup1(i))); }' % (t, t, f))
                h.append('    if exists|s: Seq<u32>| self.%s@.contains(s) { let s = choose|s: Seq<u32>| self.%s@.contains(s); self.%s.lemma_len(s); assert(s =~= tup1(s[0])); assert(self.in_ts_new_%s(s[0])); }' % (f, f, f, t))
        h.append('}')
        return '\n'.join(h)

    def type_fns(self, t, T):
        m = self.m
        fr_all = G.frame(m)
        # root_<t>
        self.emit(self.fn('root_%s' % t), ('r', '''requires self.inv(),
        ensures r == self.root_%s_spec(el), el.0 < self.n_%s() ==> r.0 < self.n_%s() && self.rep_%s(r.0 as int) == r.0,''' % (t, t, t, t)),
                  'proof { if el.0 < self.n_%s() { self.%s_equalities.lemma_rep_props(el.0 as int); } }' % (t, t))
        # are_equal_<t>
        self.emit(self.fn('are_equal_%s' % t), ('b', '''requires self.inv(),
        ensures b == (self.root_%s_spec(lhs) == self.root_%s_spec(rhs)),
            (lhs.0 < self.n_%s() && rhs.0 < self.n_%s()) ==> b == (self.rep_%s(lhs.0 as int) == self.rep_%s(rhs.0 as int)),''' % (t, t, t, t, t, t)),
                  'proof { if lhs.0 < self.n_%s() { self.%s_equalities.lemma_rep_props(lhs.0 as int); } if rhs.0 < self.n_%s() { self.%s_equalities.lemma_rep_props(rhs.0 as int); } }' % (t, t, t, t))
        # new_<t>_internal
        fr = G.frame(m, except_types=(t,))
        post = ['final(self).inv()', 'r.0 == old(self).n_%s()' % t, 'final(self).n_%s() == old(self).n_%s() + 1' % (t, t),
                'forall|i: int| 0 <= i < old(self).n_%s() ==> final(self).rep_%s(i) == old(self).rep_%s(i)' % (t, t, t),
                'final(self).rep_%s(r.0 as int) == r.0' % t,
                'forall|i: u32| final(self).in_ts_new_%s(i) == (old(self).in_ts_new_%s(i) || i == r.0)' % (t, t),
                'final(self).uprooted_%s() == old(self).uprooted_%s()' % (t, t)] + fr
        self.emit(self.fn('new_%s_internal' % t), ('r', 'requires old(self).inv(), old(self).n_%s() + 1 < u32::MAX,\n        ensures %s,' % (t, ',\n            '.join(post))),
                  '').after('self.%s_weights.push(0);' % t, self.new_internal_hints(t))
        # new_<t> (public wrapper)
        if re.search(r'pub fn new_%s\(&mut self,\s*\)' % t, m.impl.orig):
            self.emit(self.fn('new_%s' % t), ('r', 'requires old(self).inv(), old(self).n_%s() + 1 < u32::MAX,\n        ensures %s,' % (t, ',\n            '.join(post))))
        # (for enum types new_<t>(value: <T>Case) goes through define_<ctor>, which is outside this unit)
        # equate_<t>
        fr = G.frame(m, except_types=(t,))
        post = ['final(self).inv()', 'final(self).n_%s() == old(self).n_%s()' % (t, t),
                '''({
                let a = old(self).rep_%(t)s(lhs.0 as int); let b = old(self).rep_%(t)s(rhs.0 as int);
                // the two classes are merged, in one of the two orientations; every other class is untouched
                ||| (a == b && (forall|i: int| 0 <= i < old(self).n_%(t)s() ==> final(self).rep_%(t)s(i) == old(self).rep_%(t)s(i)) && final(self).uprooted_%(t)s() == old(self).uprooted_%(t)s())
                ||| (a != b && (forall|i: int| 0 <= i < old(self).n_%(t)s() ==> final(self).rep_%(t)s(i) == (if old(self).rep_%(t)s(i) == a { b } else { old(self).rep_%(t)s(i) }))
                        && final(self).uprooted_%(t)s() == old(self).uprooted_%(t)s().push(%(T)s(a as u32)))
                ||| (a != b && (forall|i: int| 0 <= i < old(self).n_%(t)s() ==> final(self).rep_%(t)s(i) == (if old(self).rep_%(t)s(i) == b { a } else { old(self).rep_%(t)s(i) }))
                        && final(self).uprooted_%(t)s() == old(self).uprooted_%(t)s().push(%(T)s(b as u32)))
            })''' % {'t': t, 'T': T},
                '// are_equal_ afterwards is exactly the equivalence generated by the previous one and (lhs, rhs)',
                '''forall|i: int, j: int| 0 <= i < old(self).n_%(t)s() && 0 <= j < old(self).n_%(t)s() ==>
                ((#[trigger] final(self).rep_%(t)s(i) == #[trigger] final(self).rep_%(t)s(j)) <==> (old(self).rep_%(t)s(i) == old(self).rep_%(t)s(j)
                    || (old(self).rep_%(t)s(i) == old(self).rep_%(t)s(lhs.0 as int) && old(self).rep_%(t)s(rhs.0 as int) == old(self).rep_%(t)s(j))
                    || (old(self).rep_%(t)s(i) == old(self).rep_%(t)s(rhs.0 as int) && old(self).rep_%(t)s(lhs.0 as int) == old(self).rep_%(t)s(j))))''' % {'t': t}] + fr
        post = [p for p in post if not p.startswith('//')]
        it = self.emit(self.fn('equate_%s' % t), (None, 'requires old(self).inv(), lhs.0 < old(self).n_%s(), rhs.0 < old(self).n_%s(),\n        ensures %s,' % (t, t, ',\n            '.join(post))),
                       'let ghost a0 = self.rep_%s(lhs.0 as int); let ghost b0 = self.rep_%s(rhs.0 as int);\nproof { self.%s_equalities.lemma_rep_props(lhs.0 as int); self.%s_equalities.lemma_rep_props(rhs.0 as int); }' % (t, t, t, t))
        it.after('self.%s_uprooted.push(child);' % t, self.equate_hints(t))
        it.before('return;', '''proof {
        SAME
        assert forall|i: u32| #[trigger] self.in_ts_%(t)s(i) <==> self.is_root_%(t)s(i) by { assert(old(self).in_ts_%(t)s(i) <==> old(self).is_root_%(t)s(i)); }
    }'''.replace('SAME', self.same_hints()) % {'t': t})

    # ------------------------------------------------------------------------------------------------
    # evaluation function `f(args) -> Option<T>`: the real emitted text (closures with `?`), against the relation-level meaning
    def eval_fn(self, r, k, rt, meaning):
        m = self.m
        n = k + 1
        tys = m.rel_types[r]
        it = self.fn(r)
        body = it.orig
        fields = re.findall(r'let set = \(&self\.(\w+)\);', body)
        if not fields or len(re.findall(r'move \|\| -> Option<u32>', body)) != len(fields):
            raise LostAnchor(it.name, 'evaluation function: closure shape not recognised', True)
        args = ['arg%d.0' % i for i in range(k)]
        pre = ['self.inv()'] + ['arg%d.0 < self.n_%s()' % (i, tys[i]) for i in range(k)]
        self.emit(it, ('res', 'requires %s,\n        ensures %s,' % (', '.join(pre), meaning)), '\n'.join('let ghost arg%d__0 = arg%d;' % (i, i) for i in range(k)))
        # after `argI = self.root_<t>(argI);` the local holds the representative the contract speaks about
        for i in range(k):
            it.after('arg%d = self.root_%s(arg%d);' % (i, tys[i], i), 'proof { assert(arg%d == self.root_%s_spec(arg%d__0)); }' % (i, tys[i], i))
        for i, f in enumerate(fields, start=1):
            c = [c for c in m.copies if c.field == f]
            if not c or c[0].eqs is not None or c[0].order != list(range(n)) or c[0] is not m.primary(r, c[0].age):
                raise G.Unsupported('evaluation function %s reads %s, which is not an identity-ordered primary copy' % (r, f))
            sy = G.seq_lit(args + ['y'])
            it.closure('move || -> Option<u32>', 'move || -> (cr: Option<u32>)',
                       """requires self.%(f)s.wf(),
            ensures match cr { Some(y) => self.%(f)s@.contains(%(sy)s), None => forall|y: u32| !self.%(f)s@.contains(#[trigger] %(sy)s) },""" % {'f': f, 'sy': sy}, occ=i)
            # tuples as nested conses: tupN(a0, .., y) == cons(a0, tup(N-1)(a1, .., y)), level by level
            hint = ['proof {']
            for j in range(k):
                hint.append('    assert forall|y: u32| #[trigger] %s == cons(%s, %s) by { assert(%s =~= cons(%s, %s)); }'
                            % (G.seq_lit(args[j:] + ['y']), args[j], G.seq_lit(args[j + 1:] + ['y']), G.seq_lit(args[j:] + ['y']), args[j], G.seq_lit(args[j + 1:] + ['y'])))
            hint.append('}')
            it.before('#[allow(unused_parens)]\n    let set = (&self.%s);' % f, '\n'.join(hint))
            # after the j-th prefix lookup: membership in the field == membership of the remaining columns in the subtree at hand
            for j in range(k):
                it.after('let set = set.get(arg%d.0)?;' % j, 'proof { assert forall|y: u32| #[trigger] self.%s@.contains(%s) == set@.contains(%s) by { } }'
                         % (f, G.seq_lit(args + ['y']), G.seq_lit(args[j + 1:] + ['y'])), occ=i)
            it.let_array_pattern(i, var='p%d__' % i)
            it.after('let [result] = set.iter().next()?;', 'proof { assert(p%d__@ =~= tup1(result)); assert(set@.contains(p%d__@)); }' % (i, i), occ=i)
        self.eval_names.append(it.name)
        it.closure('|x|', '|x: u32| -> (cr: %s)' % m.rels[r][k], 'ensures cr.0 == x,')
        # the two primary copies ARE the abstract relation (identity order); components are existing elements by inv
        it.tail("""proof {
            match r__ { Some(y) => { assert(self.t_%(r)s().contains(%(sy)s)); }, None => {} }
        }""" % {'r': r, 'sy': G.seq_lit(args + ['y.0'])})
        return it

    # ------------------------------------------------------------------------------------------------
    # new_<enum>(value: <Enum>Case): one match arm per constructor, each calling define_<constructor>; the contract is the
    # contract of that define_ under the arm's bindings (C15: "new_<enum>(Case) returns the value of the constructor application")
    def enum_new_fn(self, t, T):
        m = self.m
        if not re.search(r'pub fn new_%s\(&mut self,\s*value: %sCase\)' % (t, T), m.impl.orig):
            return
        it = self.fn('new_%s' % t)
        # the constructors come from the emitted enum DECLARATION (not from the body under proof): variant `Ctor(T0, ..)` stands for the
        # application of the function `ctor` (snake case) to its fields
        en = m.src.item(r'pub enum %sCase\s*\{' % T, name='%sCase' % T)
        variants = re.findall(r'^\s*(\w+)\(([^)]*)\),', en.orig[en.body_open + 1:], re.M)
        if not variants:
            raise G.Unsupported('new_%s: no variants found in enum %sCase' % (t, T))
        pre_arms, post_arms = [], []
        camel_to_snake = {V: k for k, V in m.types.items()}
        for ctor, fields in variants:
            r = re.sub(r'(?<!^)(?=[A-Z])', '_', ctor).lower()
            ftys = [camel_to_snake.get(x.strip()) for x in fields.split(',') if x.strip()]
            if r not in self.define_c or self.define_c[r][2] != len(ftys) or list(m.rel_types[r]) != ftys + [t]:
                raise G.Unsupported('new_%s: constructor %s has no define_%s of matching signature under contract' % (t, ctor, r))
            pre, post, k = self.define_c[r]
            binds = ', '.join('el%d' % i for i in range(k))
            pre_arms.append('%sCase::%s(%s) => %s' % (T, ctor, binds, ' && '.join(['true'] + [p for p in pre if p.startswith('el')])))
            post_arms.append('%sCase::%s(%s) => (%s)' % (T, ctor, binds, ')\n                && ('.join(post)))
        self.emit(it, ('res', 'requires old(self).inv(), old(self).n_%s() + 1 < u32::MAX,\n            match value { %s },\n        ensures match value {\n            %s,\n        },'
                       % (t, ', '.join(pre_arms), ',\n            '.join(post_arms))), '')
        self.enum_names.append(it.name)

    def same_hints(self, except_type=None):
        m = self.m
        out = []
        for t2 in m.types:
            if t2 != except_type:
                out.append('assert forall|i: u32| #[trigger] self.in_ts_%(t)s(i) <==> self.is_root_%(t)s(i) by { assert(old(self).in_ts_%(t)s(i) <==> old(self).is_root_%(t)s(i)); }' % {'t': t2})
        for r in m.rels:
            n = len(m.rels[r])
            out.append('assert(self.t_%s_new() == old(self).t_%s_new() && self.t_%s_old() == old(self).t_%s_old());' % (r, r, r, r))
            out.append('assert forall|t: Seq<u32>| #[trigger] self.t_%s().contains(t) implies t.len() == %d%s by { assert(old(self).t_%s().contains(t)); }'
                       % (r, n, ''.join(' && t[%d] < self.n_%s()' % (i, m.rel_types[r][i]) for i in range(n)), r))
            out += self.ei_same(r)
        return '\n        '.join(out)

    def frame_hints(self, except_rel):
        m = self.m
        out = []
        for t in m.types:
            out.append('assert forall|i: u32| #[trigger] self.in_ts_%(t)s(i) <==> self.is_root_%(t)s(i) by { assert(old(self).in_ts_%(t)s(i) <==> old(self).is_root_%(t)s(i)); }' % {'t': t})
        for r in m.rels:
            if r == except_rel:
                continue
            n = len(m.rels[r])
            out.append('assert(self.t_%s_new() == old(self).t_%s_new() && self.t_%s_old() == old(self).t_%s_old());' % (r, r, r, r))
            out.append('assert forall|t: Seq<u32>| #[trigger] self.t_%s().contains(t) implies t.len() == %d%s by { assert(old(self).t_%s().contains(t)); }'
                       % (r, n, ''.join(' && t[%d] < self.n_%s()' % (i, m.rel_types[r][i]) for i in range(n)), r))
            out += self.ei_same(r)
        return '\n    '.join(out)

    def ei_same(self, r):
        """relation r and its per-element row lists are untouched: the element-index conjunct of inv carries over"""
        m = self.m
        n = len(m.rels[r])
        out = []
        for ty, f, positions in m.element_indices(r):
            conj = ' && '.join('ei_has%d(&self.%s, row[%d], row)' % (n, f, i) for i in positions)
            out.append('assert forall|row: Seq<u32>| #[trigger] self.t_%s().contains(row) implies %s by { assert(old(self).t_%s().contains(row)); %s }'
                       % (r, conj, r, ' '.join('assert(ei_has%d(&old(self).%s, row[%d], row));' % (n, f, i) for i in positions)))
        return out

    def new_internal_hints(self, t):
        m = self.m
        f = m.typesets.get(t, {}).get('new')
        same = self.same_hints(t)
        return ('''proof {
        SAME
        assert forall|i: u32| #[trigger] self.in_ts_%(t)s(i) <==> self.is_root_%(t)s(i) by {
            assert(old(self).in_ts_%(t)s(i) <==> old(self).is_root_%(t)s(i));
            if i == el { assert(tup1(i) =~= [el]@); }
            if [el]@ == tup1(i) { assert([el]@[0] == tup1(i)[0]); }
        }
        assert forall|i: u32| self.in_ts_new_%(t)s(i) == (old(self).in_ts_new_%(t)s(i) || i == el) by {
            if i == el { assert(tup1(i) =~= [el]@); }
            if [el]@ == tup1(i) { assert([el]@[0] == tup1(i)[0]); }
        }
    }''' % {'t': t}).replace('SAME', same)

    def equate_hints(self, t):
        same = self.same_hints(t)
        return ('''proof {
        SAME
        let c = child.0; let r = root.0;
        assert forall|i: u32| #[trigger] self.in_ts_%(t)s(i) <==> self.is_root_%(t)s(i) by {
            assert(old(self).in_ts_%(t)s(i) <==> old(self).is_root_%(t)s(i));
            if i == c { assert(tup1(i) =~= [child.0]@); }
            if [child.0]@ == tup1(i) { assert([child.0]@[0] == tup1(i)[0]); }
        }
    }''' % {'t': t}).replace('SAME', same)

    def rel_fns(self, r):
        m = self.m
        n = len(m.rels[r])
        tys = m.rel_types[r]
        # ---- point query (predicates only: functions have an evaluation fn instead)
        has_query = re.search(r'pub fn %s\(&self,[^)]*\) -> bool' % re.escape(r), m.impl.orig) or re.search(r'pub fn %s\(&self\) -> bool' % re.escape(r), m.impl.orig)
        roots = ['self.root_%s_spec(arg%d).0' % (tys[i], i) for i in range(n)]
        if has_query:
            hints = ['proof {']
            for age in ('new', 'old'):
                for c in m.copies:
                    if c.rel == r and c.age == age and c.eqs is None:
                        st = G.stored_of_canonical(m, c, roots)
                        mm, a = G.copy_index_map(m, c)
                        hints.append('    assert([%s]@ =~= %s);' % (', '.join(x.replace('self.root_', 'self.root_') for x in st), G.seq_lit(st)))
                        hints.append('    assert(%s =~= %s);' % (G.seq_lit(['%s[%d]' % (G.seq_lit(st), x) for x in a]), G.seq_lit(roots)))
            hints.append('}')
            it = self.emit(self.fn(r), ('b', 'requires self.inv(),\n        ensures b == self.t_%s().contains(%s),' % (r, G.seq_lit(roots))), '')
            it.tail('\n'.join(hints))
        # ---- evaluation function (declared by contract only: closures with `?` over opaque iterators) and define_<func>
        is_func = re.search(r'pub fn %s\(&self,[^)]*\) -> Option<' % re.escape(r), m.impl.orig)
        if is_func and self.with_define:
            k = n - 1
            rt = tys[k]
            aroots = ['self.root_%s_spec(arg%d).0' % (tys[i], i) for i in range(k)]
            meaning = 'match res { Some(y) => y.0 < self.n_%s() && self.t_%s().contains(%s), None => forall|y: u32| !self.t_%s().contains(%s) }' % (
                rt, r, G.seq_lit(aroots + ['y.0']), r, G.seq_lit(aroots + ['y']))
            self.eval_fn(r, k, rt, meaning)
            if ('pub fn define_%s(' % r) in m.impl.orig:
                oroots = ['old(self).root_%s_spec(el%d).0' % (tys[i], i) for i in range(k)]
                fr_same = ['final(self).t_%s_new() == old(self).t_%s_new()' % (r, r), 'final(self).n_%s() == old(self).n_%s()' % (rt, rt)]
                post = ['final(self).inv()',
                        '// returns the existing value when the function is already defined on the arguments ...',
                        '(exists|y: u32| old(self).t_%s().contains(%s)) ==> (old(self).t_%s().contains(%s) && final(self).t_%s() == old(self).t_%s() && final(self).n_%s() == old(self).n_%s())'
                        % (r, G.seq_lit(oroots + ['y']), r, G.seq_lit(oroots + ['res.0']), r, r, rt, rt),
                        '// ... and otherwise a fresh element, and afterwards the function is defined there',
                        '(forall|y: u32| !old(self).t_%s().contains(%s)) ==> (res.0 == old(self).n_%s() && final(self).n_%s() == old(self).n_%s() + 1 && final(self).t_%s() =~= old(self).t_%s().insert(%s))'
                        % (r, G.seq_lit(oroots + ['y']), rt, rt, rt, r, r, G.seq_lit(oroots + ['res.0'])),
                        'final(self).t_%s().contains(%s)' % (r, G.seq_lit(['final(self).root_%s_spec(el%d).0' % (tys[i], i) for i in range(k)] + ['res.0'])),
                        'forall|i: int| 0 <= i < old(self).n_%s() ==> final(self).rep_%s(i) == old(self).rep_%s(i)' % (rt, rt, rt)]
                for r2 in m.rels:
                    if r2 != r:
                        post += ['final(self).t_%s_new() == old(self).t_%s_new()' % (r2, r2), 'final(self).t_%s_old() == old(self).t_%s_old()' % (r2, r2)]
                post = [p for p in post if not p.startswith('//')]
                pre = ['old(self).inv()', 'old(self).n_%s() + 1 < u32::MAX' % rt] + ['el%d.0 < old(self).n_%s()' % (i, tys[i]) for i in range(k)]
                els_l = ', '.join('el%d' % i for i in range(k))
                self.define_c[r] = (pre, post, k)
                self.emit(self.fn('define_%s' % r), ('res', 'requires %s,\n        ensures %s,' % (', '.join(pre), ',\n            '.join(post))),
                          '')
        # ---- insert
        els = ['old(self).root_%s_spec(el%d).0' % (tys[i], i) for i in range(n)]
        post = ['final(self).inv()', 'final(self).t_%s() =~= old(self).t_%s().insert(%s)' % (r, r, G.seq_lit(els)),
                '// the tuple is reported by the point query immediately, for every argument in the same classes',
                'final(self).t_%s().contains(%s)' % (r, G.seq_lit(els))] + G.frame(m, except_rel=r)
        post = [p for p in post if not p.startswith('//')]
        pre = ['old(self).inv()'] + ['el%d.0 < old(self).n_%s()' % (i, tys[i]) for i in range(n)]
        it = self.emit(self.fn('insert_%s' % r), (None, 'requires %s,\n        ensures %s,' % (', '.join(pre), ',\n            '.join(post))), '')
        self.insert_hints(it, r)

    def insert_hints(self, it, r):
        m = self.m
        n = len(m.rels[r])
        names = ['el%d' % i for i in range(n)]
        t0 = G.seq_lit(names)
        # (1) at each early return: the row is already present
        body = it.orig
        k = 0
        for mm in re.finditer(r'if \(&self\.(\w+)\)\.contains\(\[([^\]]*)\]\) \{\s*return;', body):
            k += 1
            field = mm.group(1)
            c = [c for c in m.copies if c.field == field]
            if not c:
                continue
            c = c[0]
            st = G.stored_of_canonical(m, c, names)
            mmap, a = G.copy_index_map(m, c)
            it.before('return;', 'proof { assert([%s]@ =~= %s); assert(%s =~= %s); assert(self.t_%s().contains(%s)); assert(self.t_%s().insert(%s) =~= self.t_%s()); }'
                      % (', '.join(st), G.seq_lit(st), G.seq_lit(['%s[%d]' % (G.seq_lit(st), x) for x in a]), t0, r, t0, r, t0, r), occ=k)
        # (2) after the last index insertion: every copy is again the image of the primary copy
        h = ['proof {', '    let t0 = %s;' % t0, '    ' + self.frame_hints(r)]
        p = m.primary(r, 'new')
        pst = G.stored_of_canonical(m, p, ['t[%d]' % i for i in range(n)])
        pst0 = G.stored_of_canonical(m, p, names)
        tys = m.rel_types[r]
        h.append('    assert(self.t_%s_old() == old(self).t_%s_old());' % (r, r))
        h.append('    assert([%s]@ =~= %s);' % (', '.join(pst0), G.seq_lit(pst0)))
        h.append('    assert forall|t: Seq<u32>| #[trigger] self.t_%(r)s_new().contains(t) <==> (old(self).t_%(r)s_new().contains(t) || t == t0) by {' % {'r': r})
        h.append('        if t.len() == %d { if %s == %s { assert(t =~= t0); } if t == t0 { assert(%s =~= %s); } }'
                 % (n, G.seq_lit(pst), G.seq_lit(pst0), G.seq_lit(pst), G.seq_lit(pst0)) if p.order != list(range(n)) else
                 '        if t == t0 { assert(%s =~= t0); } if !old(self).t_%s_new().contains(t) && self.t_%s_new().contains(t) { assert(t =~= t0); }' % (G.seq_lit(pst0), r, r))
        h.append('    }')
        h.append('    assert(self.t_%(r)s() =~= old(self).t_%(r)s().insert(t0));' % {'r': r})
        h.append('    assert forall|t: Seq<u32>| #[trigger] self.t_%s().contains(t) implies t.len() == %d%s by {' % (r, n, ''.join(' && t[%d] < self.n_%s()' % (i, tys[i]) for i in range(n))))
        h.append('        if !old(self).t_%s().contains(t) { %s assert(%s == %s); assert(t =~= t0); }' % (r, 'old(self).%s.lemma_len(%s);' % (p.field, G.seq_lit(pst)) if False else '', G.seq_lit(pst), G.seq_lit(pst0)))
        h.append('    }')
        for c in m.copies:
            if c.rel != r or c.age != 'new':
                continue
            st = G.stored_of_canonical(m, c, names)
            mmap, a = G.copy_index_map(m, c)
            s0 = G.seq_lit(st)
            h.append('    assert([%s]@ =~= %s);' % (', '.join(st), s0))
            back = G.seq_lit(['%s[%d]' % (s0, x) for x in a])
            cond = G.diag_condition(m, c, names) if c.eqs is not None else 'true'
            h.append('    if %s { assert(%s =~= t0); }' % (cond, back))
            h.append('    assert forall|s: Seq<u32>| s.len() == %d && #[trigger] self.t_%s_new().contains(%s) && !old(self).t_%s_new().contains(%s) implies s == %s && (%s) by {'
                     % (mmap, r, G.seq_lit(['s[%d]' % x for x in a]), r, G.seq_lit(['s[%d]' % x for x in a]), s0, cond))
            h.append('        let t = %s; assert(t == t0); %s assert(s =~= %s);' % (G.seq_lit(['s[%d]' % x for x in a]), ' '.join('assert(t[%d] == t0[%d]);' % (i, i) for i in range(n)), s0))
            h.append('    }')
        # (3) element index: every push is bracketed by a snapshot and the push lemma; at the end every row of the relation is listed
        #     under each of its components (old rows: lists only grow; the new row: pushed under el_i unless an earlier column of the
        #     same type holds the same element)
        for ty, f, positions in m.element_indices(r):
            for i in positions:
                stmt = 'self.%s.entry(el%d).or_default().push([%s]);' % (f, i, ', '.join(names))
                it.before(stmt, 'let ghost ei_%d_%s = self.%s;' % (i, f, f))
                it.after(stmt, 'proof { lemma_ei_push%d(&ei_%d_%s, &self.%s, el%d, [%s]); }' % (n, i, f, f, i, ', '.join(names)))
            conj = ' && '.join('ei_has%d(&self.%s, row[%d], row)' % (n, f, i) for i in positions)
            h.append('    assert forall|row: Seq<u32>| #[trigger] self.t_%s().contains(row) implies %s by {' % (r, conj))
            h.append('        if old(self).t_%s().contains(row) { %s } else { assert(row == t0); }'
                     % (r, ' '.join('assert(ei_has%d(&old(self).%s, row[%d], row));' % (n, f, i) for i in positions)))
            h.append('    }')
        h.append('    assert forall|t: Seq<u32>| !(#[trigger] self.t_%s_new().contains(t) && self.t_%s_old().contains(t)) by { if t != t0 { assert(old(self).t_%s_new().contains(t) == self.t_%s_new().contains(t)); } }' % (r, r, r, r))
        h.append('}')
        it.at_end('\n'.join(h))


def build(repo, canary=False, probes=None, part='main'):
    files = probe_files() if probes is None else probes
    out = G.generate(files)
    A = Assembly(NAME)
    A.text(HEADER, 'header')
    uf.declarations(A, repo)
    models = [G.Model(out[k]) for k in sorted(out)]
    ar = sorted(set(a for m in models for a in m.tree_arities()))
    if part in ('define', 'main', 'enum'):
        ar = sorted(set(ar) | set(range(1, max(ar) + 1)))      # get() hands out subtrees of every smaller arity
    pt.declarations(A, repo, ar, with_iter=True, with_get=(part in ('define', 'main', 'enum')))
    A.spec(os.path.join(HERE, '..', 'spec', 'gen.rs'))
    for nn in sorted(set(len(m.rels[r]) for m in models for r in m.rels if m.element_indices(r))):
        A.text(ei_spec(nn), 'element index vocabulary for rows of %d columns' % nn)
    seen_types = set()
    A.exec_names = []
    for m in models:
        A.text('pub mod %s {\nuse super::*;\n' % m.name.lower(), 'module wrapper for probe ' + m.name)
        for T in m.types.values():
            st = m.src.item(r'pub struct %s\(pub u32\);' % T, name=T)
            A.item(st)
            if part in ('main', 'enum'):
                for pat in (r'impl Into<u32> for %s\s*\{' % T, r'impl From<u32> for %s\s*\{' % T):
                    A.item(m.src.item(pat, name=T))
            else:
                # part 'define': the two conversions are verified against their spec impls in part 'main' (real text); here they are
                # body-less stand-ins, because Verus 0.2026.09.13 cannot discharge them in a file that also holds the assumed
                # contracts of the evaluation functions (see DESIGN §10)
                A.text('impl Into<u32> for %s { #[verifier::external_body] fn into(self) -> u32 { self.0 } }\nimpl From<u32> for %s { #[verifier::external_body] fn from(x: u32) -> Self { %s(x) } }\n' % (T, T, T),
                       'From/Into of the newtype: proved in part main, trusted here')
            A.text('impl Clone for %s { fn clone(&self) -> Self { *self } }\nimpl Copy for %s {}\nimpl PartialEq for %s { #[verifier::external_body] fn eq(&self, other: &Self) -> (r: bool) ensures r == (self.0 == other.0) { self.0 == other.0 } }\n' % (T, T, T),
                   'stand-ins for #[derive(Copy, Clone, PartialEq)] of the newtype (derived PartialEq is structural)')
            A.text(type_spec_impls(T), 'spec impls for the newtype')
            if re.search(r'pub enum %sCase\s*\{' % T, m.src.text):
                A.item(m.src.item(r'pub enum %sCase\s*\{' % T, name='%sCase' % T))
        for mm in re.finditer(r'const (\w+_WEIGHT): usize = \d+;', m.src.text):
            A.item(m.src.item(r'const %s: usize' % mm.group(1), name=mm.group(1)))
        if getattr(m, 'delta_fields', None):
            # the model keeps unapplied conclusions in a ModelDelta field: the struct and its constructor (real text) are part of the assembly
            A.item(m.src.item(r'struct ModelDelta\s*\{', name='ModelDelta'))
            md = m.src.item(r'impl ModelDelta\s*\{', name='ModelDelta')
            A.text(md.header(), 'impl ModelDelta header (from the emitted text)')
            A.item(m.src.fn('new', within=md, name='%s::ModelDelta::new' % m.name.lower()))
            A.text('}\n', 'impl close')
        A.item(m.struct)
        A.text(m.impl.header(), 'impl header of the model (from the emitted text)')
        A.text(G.ghost_impl(m), 'GENERATED ghost accessors and representation invariant')
        fs = Funcs(m, canary, with_define=(part in ('define', 'main', 'enum')), with_move=(part == 'move'))
        its = fs.all()
        for d in fs.decls:
            A.text(d, 'evaluation function declared by contract only (assumption; bounded-checked by the native harness)')
        for it in its:
            A.item(it)
        A.skipped = getattr(A, 'skipped', []) + fs.skipped
        A.exec_names += [x for x in fs.names if part == 'main' or (part == 'define' and ('::define_' in x or x in fs.eval_names)) or (part == 'move' and x.endswith('::move_new_to_old')) or (part == 'enum' and x in fs.enum_names)]
        A.text('}\n}\n', 'impl / module close')
    A.text('} // verus!\nfn main() {}\n', 'footer')
    return A
