"""Unit GEN-close: the emitted `close_until` and `close` of every probe module (real text), verified against the
RETURN-VALUE half of C07 on top of contract-only declarations of everything they call.

  close_until(cond) -> r:   r  ==> cond returned true for exactly the state returned       (cond.ensures((&final(self),), true))
                            !r ==> is_dirty() returned false for exactly the state returned (!final(self).dirty_spec())
                                   and cond returned false for exactly that state           (cond.ensures((&final(self),), false))
  close():                  ends in a state in which is_dirty() is false

What the callees DO is not part of this unit: canonicalize, recompute_model_indices, move_new_to_old, ModelDelta::apply_* and the
rule functions are declared without postcondition (any state change is allowed), `is_dirty` is declared as the observation of an
uninterpreted `dirty_spec` (its exact meaning -- flag, new copies, uprooted lists -- is proved in unit GEN).  So the obligation is
purely about the control flow of the emitted loop: no mutation between the deciding test and the return.  Termination is not
claimed (`close` may diverge by design)."""
import os
import re

from kit import gen as G
from kit.assemble import Assembly
from units import pt, uf, gen
from units.wbapi import declaration

NAME = 'GEN-close'
RLIMIT = 50
CANARY_RLIMIT = 10
VERUS_EXTRA = []
HERE = os.path.dirname(os.path.abspath(__file__))

ALLOW_TRUSTED_RX = gen.ALLOW_TRUSTED_RX + [r'^uninterp fn dirty_spec$', r'^assume_specification \[?std::mem::replace', r'^assume_specification core::mem::replace', r'^exec_allows_no_decreases_clause']

DROPPED = ['ModelDelta::apply_func_defs: real signature, body replaced, ASSUMED postcondition `not dirty afterwards => model unchanged`', 'everything except the model struct, ModelDelta, the rule environments, close_until and close',
           'the `unsafe extern "Rust"` block: each rule function `safe fn <rule>(env: <Rule>Env)` is replaced by a body-less declaration with the same signature and NO postcondition',
           'canonicalize, recompute_model_indices, move_new_to_old, ModelDelta::{new, apply_equalities, apply_tuples}: real signatures, body replaced, NO postcondition (any effect allowed)',
           'is_dirty: real signature, declared `ensures b == self.dirty_spec()` with dirty_spec uninterpreted (exact meaning proved in unit GEN)',
           '#[derive(Debug, Clone)] of ModelDelta, #[allow(..)] attributes']

SAMPLES = [
    'close_until(&mut self, condition) -> r: requires forall|m| condition.requires((m,)); ensures r ==> condition.ensures((&*final(self),), true), !r ==> !final(self).dirty_spec() && condition.ensures((&*final(self),), false)   (no termination claim)',
    'close(&mut self): ensures !final(self).dirty_spec()',
]

ASSUMPTIONS = [
    'programs are sampled (the probe theories); states, conditions and histories are universal',
    'the callees of close_until are declared WITHOUT postcondition (sound over-approximation of their effect); is_dirty observes an uninterpreted dirty_spec whose meaning is established in unit GEN',
    'ASSUMED contract of ModelDelta::apply_func_defs (a drain loop outside Verus): if the model is not dirty afterwards it is unchanged (define_<f> on a defined term touches nothing, on an undefined one it allocates an element, which makes the model dirty -- both proved for define_<f> in unit GEN)',
    'termination is not claimed (exec_allows_no_decreases_clause): close() may run forever by design',
    'a condition closure is a function of the model state (Verus models Fn calls as pure)',
]

STD = '''
pub assume_specification<T>[std::mem::replace](dest: &mut T, src: T) -> (r: T)
    ensures r == *old(dest), *final(dest) == src;
'''


def build(repo, canary=False, probes=None):
    files = gen.probe_files() if probes is None else probes
    out = G.generate(files)
    A = Assembly(NAME)
    A.text(gen.HEADER, 'header')
    A.text(STD, 'std specs')
    uf.declarations(A, repo)
    models = [G.Model(out[k]) for k in sorted(out)]
    ar = sorted(set(a for m in models for a in m.tree_arities()))
    pt.declarations(A, repo, ar)
    A.exec_names = []
    CAN = '\nassert(false);' if canary else ''
    for m in models:
        src = m.src
        mod = m.name.lower()
        A.text('pub mod %s {\nuse super::*;\n' % mod, 'module wrapper for probe ' + m.name)
        for T in m.types.values():
            A.item(src.item(r'pub struct %s\(pub u32\);' % T, name=T))
            A.text('impl Into<u32> for %s { #[verifier::external_body] fn into(self) -> u32 { self.0 } }\nimpl From<u32> for %s { #[verifier::external_body] fn from(x: u32) -> Self { %s(x) } }\n'
                   'impl Clone for %s { fn clone(&self) -> Self { *self } }\nimpl Copy for %s {}\nimpl PartialEq for %s { #[verifier::external_body] fn eq(&self, other: &Self) -> (r: bool) ensures r == (self.0 == other.0) { self.0 == other.0 } }\n'
                   % (T, T, T, T, T, T), 'stand-ins for the derives / conversions of the newtype (proved in unit GEN)')
            A.text(gen.type_spec_impls(T), 'spec impls for the newtype')
        A.item(src.item(r'struct ModelDelta\s*\{', name='ModelDelta'))
        A.item(m.struct)
        A.text('type Model = %s;\n' % m.name, 'type alias (as in the emitted text)')
        # rule environments (the copies in the main module: the last occurrence of each) and body-less rule functions
        ext = src.text.find('unsafe extern "Rust"')
        if ext < 0:
            raise G.Unsupported('no extern block in the emitted module')
        ext_end = src.text.find('\n}\n', ext)
        rules = re.findall(r'safe fn (\w+)\(env: (\w+)\);', src.text[ext:ext_end])
        for rule, env in rules:
            cands = [it for it in src.items_all(r"pub struct %s<'a>\s*\{" % env, name=env) if it.start < ext]
            if not cands:
                raise G.Unsupported('environment struct %s not found' % env)
            A.item(cands[-1])
            A.text('#[verifier::external_body]\nfn %s(env: %s) { unimplemented!() }\n' % (rule, env), 'rule function %s: declared without postcondition (extern "Rust" in the emitted text)' % rule)
        # ModelDelta functions: contract-only, no postcondition
        md = src.item(r'impl ModelDelta\s*\{', name='ModelDelta')
        A.text(md.header(), 'impl ModelDelta header (from the emitted text)')
        for fn in ('new', 'apply_equalities', 'apply_tuples'):
            A.text(declaration(src.fn(fn, within=md), None, ''), 'ModelDelta::%s declared without postcondition' % fn)
        # ASSUMED (drain loop, outside Verus): applying pending function definitions either creates an element -- then the model is dirty --
        # or finds every term defined and leaves the model as it was (define_<f> returns the existing value without touching anything: unit GEN)
        A.text(declaration(src.fn('apply_func_defs', within=md), None, 'ensures !final(model).dirty_spec() ==> *final(model) == *old(model),'),
               'ModelDelta::apply_func_defs: ASSUMED "not dirty afterwards => model unchanged"')
        A.text('}\n', 'impl close')
        A.text(m.impl.header(), 'impl header of the model (from the emitted text)')
        A.text('    /// what is_dirty() observes (exact meaning: unit GEN)\n    pub uninterp spec fn dirty_spec(&self) -> bool;\n', 'ghost')
        for fn in ('canonicalize', 'recompute_model_indices', 'move_new_to_old'):
            A.text(declaration(src.fn(fn, within=m.impl), None, ''), '%s declared without postcondition' % fn)
        A.text(declaration(src.fn('is_dirty', within=m.impl), 'b', 'ensures b == self.dirty_spec(),'), 'is_dirty declared as the observation of dirty_spec')
        # the state the condition saw when it last returned false: the returned state itself, or -- when the model keeps unapplied conclusions in a
        # ModelDelta field, which close_until empties before it applies them -- the returned state up to that field (no public query reads it)
        dfs = getattr(m, 'delta_fields', [])
        if dfs:
            cond_false = 'exists|%s| condition.ensures((&final(self).with_pending(%s),), false)' % (
                ', '.join('d%d: ModelDelta' % i for i in range(len(dfs))), ', '.join('d%d' % i for i in range(len(dfs))))
            A.text('    /// the same model with other unapplied conclusions (the fields are private in the emitted text)\n    pub closed spec fn with_pending(&self, %s) -> Self { %s { %s, ..*self } }\n'
                   % (', '.join('d%d: ModelDelta' % i for i in range(len(dfs))), m.name, ', '.join('%s: d%d' % (f, i) for i, f in enumerate(dfs))), 'ghost')
        else:
            cond_false = 'condition.ensures((&*final(self),), false)'
        cu = src.fn('close_until', within=m.impl, name='%s::%s::close_until' % (mod, m.name))
        cu.attr('#[verifier::spinoff_prover]')
        cu.attr('#[verifier::exec_allows_no_decreases_clause]')
        cu.sig(ret='r', spec='''requires forall|mm: &Self| #[trigger] condition.requires((mm,)),
        ensures
            // true only in a state in which the condition holds
            r ==> condition.ensures((&*final(self),), true),
            // false only in a state in which is_dirty() is false (nothing new, nothing uprooted, no pending empty-premise rule)
            // and in which the condition does not hold
            !r ==> !final(self).dirty_spec() && %s,''' % cond_false, prelude=CAN.strip())
        cu.loop(1, 'invariant forall|mm: &Self| #[trigger] condition.requires((mm,)),')
        if dfs:
            # witness for the exists: the unapplied conclusions the model held when the condition was evaluated
            cu.before('if condition(self) {', 'let ghost at_cond = *self;', occ=2)
            cu.before('return false;', 'proof { if self.with_pending(%s) == at_cond { } }' % ', '.join('at_cond.%s' % f for f in dfs))
        A.item(cu)
        cl = src.fn('close', within=m.impl, name='%s::%s::close' % (mod, m.name))
        cl.attr('#[verifier::spinoff_prover]')
        cl.attr('#[verifier::exec_allows_no_decreases_clause]')
        cl.sig(spec='ensures !final(self).dirty_spec(),', prelude=CAN.strip())
        cl.closure('|_: &Self|', '|_m: &Self| -> (cr: bool)', 'ensures cr == false,')
        A.item(cl)
        A.exec_names += [cu.name, cl.name]
        A.text('}\n}\n', 'impl / module close')
    A.text('} // verus!\nfn main() {}\n', 'footer')
    return A
