"""Unit LOC: `Location::{is_empty, intersect}` of eqlog/src/grammar_util.rs (real text) -- the interval arithmetic under the diagnostic
renderer (C11).  intersect returns the intersection of two half-open byte ranges: for two non-empty ranges Some(overlap) iff they overlap
in at least one byte; an empty range (a position) intersects a range it lies in or touches.  Serves C11 (proof part; the renderer itself is
str/format! code outside Verus and stays bounded)."""
import os

from kit.assemble import Assembly
from kit.extract import Source

NAME = 'LOC'
FILE = 'eqlog/src/grammar_util.rs'
RLIMIT = 20
CANARY_RLIMIT = 10
VERUS_EXTRA = []
EXEC_FUNCS = ['Location::is_empty', 'Location::intersect']
DROPPED = ['#[derive(Clone, Copy, PartialEq, Eq, PartialOrd, Ord, Hash, Debug)] of Location (replaced by stand-in Clone/Copy impls)', 'everything else in grammar_util.rs (make_loc, parser glue)']
ALLOW_TRUSTED = ['assume_specification core::cmp::max', 'assume_specification core::cmp::min']
SAMPLES = ['Location::intersect(self, other) -> r: r == Some(Location(max(b), min(e))) iff (both non-empty and max(b) < min(e)) or (one is empty and max(b) <= min(e)); else None']

HEADER = '''#![allow(unused_imports, unused_variables, dead_code)]
use vstd::prelude::*;
use vstd::std_specs::cmp::*;
use std::cmp::{max, min, Ordering};
verus! {
// std::cmp::max / min (the second argument is returned when the two compare equal / the first one, respectively)
pub assume_specification<T: Ord>[core::cmp::max](a: T, b: T) -> (r: T)
    ensures T::obeys_cmp_spec() ==> r == (if a.cmp_spec(&b) == Ordering::Greater { a } else { b });
pub assume_specification<T: Ord>[core::cmp::min](a: T, b: T) -> (r: T)
    ensures T::obeys_cmp_spec() ==> r == (if a.cmp_spec(&b) == Ordering::Greater { b } else { a });
pub open spec fn smax(a: int, b: int) -> int { if a >= b { a } else { b } }
pub open spec fn smin(a: int, b: int) -> int { if a <= b { a } else { b } }
'''


def build(repo, canary=False):
    src = Source(os.path.join(repo, FILE))
    A = Assembly(NAME)
    A.text(HEADER, 'header')
    A.item(src.item(r'pub struct Location\(pub usize, pub usize\);', name='Location'))
    A.text('impl Clone for Location { fn clone(&self) -> Self { *self } }\nimpl Copy for Location {}\n', 'stand-ins for the derives')
    imp = src.item(r'impl Location\s*\{', name='Location')
    A.text(imp.header(), 'impl header (from source)')
    can = '\nassert(false);' if canary else ''
    it = src.fn('is_empty', within=imp, name='Location::is_empty')
    it.sig(ret='b', spec='ensures b == (self.0 == self.1),', prelude=can.strip())
    A.item(it)
    it = src.fn('intersect', within=imp, name='Location::intersect')
    it.sig(ret='r', spec='''ensures
            ({
                let b = smax(self.0 as int, other.0 as int); let e = smin(self.1 as int, other.1 as int);
                let both = self.0 != self.1 && other.0 != other.1;
                match r {
                    Some(l) => l.0 == b && l.1 == e && (if both { b < e } else { b <= e }),
                    None => if both { b >= e } else { b > e },
                }
            }),''', prelude=can.strip())
    A.item(it)
    A.text('}\n} // verus!\nfn main() {}\n', 'footer')
    return A
