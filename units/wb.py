"""Unit WB: eqlog-runtime/src/wbtree/map.rs against a finite-map view with BST order, exact cached sizes and
weight balance.  Serves C14 and is the contract PT builds on.  The annotation text below was developed
in design-probes/wbtree_build.py; it is applied through kit.extract (insertion-only, erasure-checked)."""
import os

from kit.assemble import Assembly
from kit.extract import Source

HERE = os.path.dirname(os.path.abspath(__file__))
SPECD = os.path.join(HERE, '..', 'spec')

NAME = 'WB'
FILE = 'eqlog-runtime/src/wbtree/map.rs'
RLIMIT = 100
CANARY_RLIMIT = 20

EXEC_FUNCS = ['DataNode::update_size_internal', 'Node::new', 'Node::new_data_node', 'Node::size', 'Node::rotate_left', 'Node::rotate_right',
              'Node::balance', 'Node::insert_simple', 'Node::remove_min', 'Node::remove_existing_node', 'Node::unwrap_to_data',
              'Node::join', 'Node::split', 'Node::join_without_key', 'WBTreeMap::new', 'WBTreeMap::insert', 'WBTreeMap::get',
              'WBTreeMap::contains_key', 'WBTreeMap::is_empty', 'WBTreeMap::len', 'WBTreeMap::clear', 'WBTreeMap::remove', 'Node::union', 'WBTreeMap::union', 'Node::difference', 'WBTreeMap::difference', 'WBTreeMap::get_mut', 'Iter::descend_left', 'Iter::next', 'WBTreeMap::iter']

DROPPED = ['#[cfg(test)] mod tests', 'impl Debug for Node / WBTreeMap', '`use` lines (re-stated in the header)',
           'fn apply_single_mapping / apply_mappings bodies (apply_mappings is declared by an empty contract; only reachable through Node::Mapping, which wf excludes)',
           'Node::{as_data_node, wrapped_in_mappings, update_size} (dead / test-only), WBTreeMap::mapped (test-only lazy key mapping)',
           'IterMut and its impls (unsafe raw pointers) and WBTreeMap::iter_mut -- bounded stand-in only']

ALLOW_TRUSTED = [
    'assume_specification <std::rc::Rc<T,A>asstd::convert::AsRef<T>>::as_ref',
    'assume_specification std::mem::replace',
    'assume_specification std::option::Option::<T>::map_or',
    'assume_specification std::rc::Rc::<T,A>::make_mut',
    'assume_specification std::rc::Rc::<T,A>::ptr_eq',
    'assume_specification std::rc::Rc::<T,A>::unwrap_or_clone',
    'external_body fn apply_mappings',
    'external_body fn lemma_rc_cloned<T>',
    'external_body fn clone',
    'external_body struct PrefixTree2',
    'uninterp fn am',
    'global size_of: global size_of usize == 8;',
]

SAMPLES = [
    'Node::insert_simple(t, k, v) -> (res, old): requires tb(t), bal(t); ensures tb(res), bal(res), view(res) == view(t).insert(k, v), old == view(t).get(k), nsz grows by 0/1',
    'Node::balance(node): requires children bst+bal, sizes exact; ensures same view/bounds/size, and bal(res) whenever rot_ok_t(node)',
    'Node::join(l, k, v, r): requires bst(l,lo,k), bst(r,k,hi), bal(l), bal(r); ensures bst, bal, nsz == nsz(l)+nsz(r)+1, view == view(l) U view(r) U {k->v}',
    'WBTreeMap::insert(&mut self, k, v) -> r: requires wf; ensures final.wf, final@ == old@.insert(k, v), r == old@.get(k)',
    'Iter::next: obeys the iterator laws in EVERY state (remaining() loses its head; None only when nothing remains); WBTreeMap::iter(): remaining = the entries of the map, strictly increasing keys, each once',
    'lemma_height_log(t): requires tb(t), bal(t); ensures 4^height(t) <= 3^height(t) * (nsz(t) + 1)   (height logarithmic in size, for all trees)',
    'WBTreeMap::union(&self, other, merge) -> r: on a common key merge.ensures((&k, self@[k], other@[k]), r@[k])  -- operands in (left, right) order',
]

HEADER = '''#![feature(allocator_api)]
#![feature(clone_to_uninit)]
#![feature(sized_hierarchy)]
#![allow(unused_imports, unused_variables, dead_code, unused_mut, unused_parens, unused_braces)]
use vstd::prelude::*;
use vstd::std_specs::iter::IteratorSpec;
use std::rc::Rc;
use std::cmp::Ordering;
use std::mem;
verus! {

global size_of usize == 8;
'''


def build(repo, canary=False):
    src = Source(os.path.join(repo, FILE))
    A = Assembly(NAME)
    CAN = '\n        assert(false);' if canary else ''
    DATANODE = src.item(r'impl<V: Clone> DataNode<V>\s*\{', name='DataNode')
    NODE = src.item(r'impl<V: Clone> Node<V>\s*\{', name='Node')
    MAP = src.item(r'impl<V: Clone> WBTreeMap<V>\s*\{', name='WBTreeMap')

    def I(imp, fn):
        it = src.fn(fn, within=imp)
        it.attr('#[verifier::spinoff_prover]')
        return it

    def emit(it):
        if canary:
            it._add(it.body_open + 1, 'ins', 0, CAN)
        A.item(it)

    def glue(t, what='glue'):
        A.text(t, what)

    def SPEC(f):
        A.spec(os.path.join(SPECD, f))

    A.text(HEADER, 'header')
    SPEC('std_rc.rs')
    glue(PREFIXTREE2_STUB, 'PrefixTree2 stub')
    A.iter_src = src
    for pat, nm in ((r'#\[derive\(Clone\)\]\s*struct DataNode<V: Clone>', 'DataNode'),
                    (r'#\[derive\(Clone\)\]\s*struct MappingNode<V: Clone>', 'MappingNode'),
                    (r'#\[derive\(Clone\)\]\s*#\[allow\(dead_code\)\]\s*enum Node<V: Clone>', 'Node'),
                    (r'const DELTA: usize', 'DELTA'), (r'const GAMMA: usize', 'GAMMA')):
        A.item(src.item(pat, name=nm))
    SPEC('wb_vocab.rs')
    glue(DATANODE.header(), 'impl DataNode header (from source)')
    env = {'emit_plain': A.item, 'I': I, 'emit': emit, 'glue': glue, 'SPEC': SPEC, 'DATANODE': DATANODE, 'NODE': NODE, 'MAP': MAP,
           'MAPGLUE': lambda: mapglue(A, src), 'src': src, 'A': A, 'A_FILE': os.path.join(HERE, '..', 'annot', 'wb.py')}
    exec(compile(open(os.path.join(HERE, '..', 'annot', 'wb.py')).read(), 'annot/wb.py', 'exec'), env)
    A.text('} // verus!\nfn main() {}\n', 'footer')
    return A


PREFIXTREE2_STUB = '''
// `crate::PrefixTree2` occurs only as the payload of Node::Mapping (lazy key mapping, test-only `mapped`);
// it is opaque here.
#[verifier::external_body]
pub struct PrefixTree2 { x: u32 }
impl Clone for PrefixTree2 {
    #[verifier::external_body]
    fn clone(&self) -> Self { unimplemented!() }
}
'''


def mapglue(A, src):
    A.text('''
#[verifier::external_body]
fn apply_mappings(mappings: &[&PrefixTree2], val: u32) -> (r: Option<u32>)
    ensures r == am(derefs(mappings@), val)
{ unimplemented!() }
''', 'apply_mappings declared by contract: its result is the abstract function `am` (uninterpreted)')
    A.item(src.item(r'#\[derive\(Clone\)\]\s*pub struct WBTreeMap<V: Clone>', name='WBTreeMap'))
    A.text(src.item(r'impl<V: Clone> WBTreeMap<V>\s*\{', name='WBTreeMap').header(), 'impl WBTreeMap header (from source)')
    A.text('''
    pub closed spec fn wf(&self) -> bool { tb(self.root) && bal(self.root) && self.len == nsz(self.root) }
    pub closed spec fn view(&self) -> Map<u32, V> { view(self.root) }
''', 'WBTreeMap ghost accessors')
