"""Unit WBAPI: the entry API of wbtree/map.rs and all of wbtree/set.rs (real text) verified on top of the
contracts of the WBTreeMap core operations (annot/wbmap_api.py -- the same text unit WB proves on the real
bodies).  Also used as the prefix of unit PT."""
import os
import re

from kit.assemble import Assembly
from kit.extract import Source

HERE = os.path.dirname(os.path.abspath(__file__))
SPECD = os.path.join(HERE, '..', 'spec')

NAME = 'WBAPI'
RLIMIT = 50
# Verus 0.2026.09.13 rejects `WBTreeMap<()>` for `WBTreeMap<V: Clone>` in its trait-conflict pre-pass ('(): T_Clone is not satisfied');
# that pass only looks for overlapping trait impls in ghost code, of which this unit has none.
VERUS_EXTRA = ['--no-trait-conflicts']

HEADER = '''#![allow(unused_imports, unused_variables, dead_code, unused_mut, unused_parens, unused_braces)]
use vstd::prelude::*;
use vstd::std_specs::iter::IteratorSpec;
verus! {

global size_of usize == 8;
'''

CORE_STRUCT = '''
// ---- WBTreeMap core: declared by contract only in this unit (the contracts are the ones of annot/wbmap_api.py;
// ---- unit WB discharges them on the real bodies, see evidence of C14 for which ones are proved)
#[verifier::external_body]
#[verifier::accept_recursive_types(V)]
pub struct WBTreeMap<V: Clone> { x: core::marker::PhantomData<V> }

impl<V: Clone> Clone for WBTreeMap<V> {
    #[verifier::external_body]
    fn clone(&self) -> (r: Self) ensures r == *self { unimplemented!() }
}
'''

CORE_GHOST = '''
    pub uninterp spec fn view(&self) -> Map<u32, V>;
    pub uninterp spec fn wf(&self) -> bool;
'''

SET_GHOST = '''
    pub closed spec fn view(&self) -> Set<u32> { self.map@.dom() }
    pub closed spec fn wf(&self) -> bool { self.map.wf() }
'''

ITER_DECL = '''
// ---- shared iteration: `Iter` is declared by contract only (unit WB proves that the real `next` obeys the iterator-protocol laws in every
// ---- state and that `iter()` yields exactly the entries in increasing key order)
#[verifier::external_body]
#[verifier::accept_recursive_types(V)]
pub struct Iter<'a, V: Clone> { x: &'a V }
impl<'a, V: Clone> Iter<'a, V> {
    /// the items this iterator state will still yield, in order
    pub uninterp spec fn rem(&self) -> Seq<(u32, V)>;
}
'''

ITER_NEXT_DECL = '''
impl<'a, V: Clone> Iterator for Iter<'a, V> {
    type Item = (u32, &'a V);
    #[verifier::external_body]
    fn next(&mut self) -> Option<Self::Item> { unimplemented!() }
}
'''

ENTRY_GHOST = '''
    // ghost accessors (the fields are private in the source)
    pub closed spec fn key(&self) -> u32 { self.key }
    pub closed spec fn mref(&self) -> &'a mut WBTreeMap<V> { self.map }
'''

EXEC_FUNCS = ['WBTreeMap::entry', 'Entry::or_insert', 'Entry::or_insert_with', 'OccupiedEntry::into_mut', 'OccupiedEntry::get_mut',
              'OccupiedEntry::remove', 'VacantEntry::insert',
              'WBTreeSet::new', 'WBTreeSet::insert', 'WBTreeSet::contains', 'WBTreeSet::remove', 'WBTreeSet::is_empty', 'WBTreeSet::len',
              'WBTreeSet::clear', 'WBTreeSet::iter', 'WBTreeSet::union', 'WBTreeSet::difference', 'WBTreeSetIter::next']

CORE_DECLS = ['new', 'insert', 'get', 'get_mut', 'contains_key', 'is_empty', 'len', 'clear', 'remove', 'union', 'difference', 'iter']

DROPPED = ['bodies of the WBTreeMap core operations (contract-only here; proved or bounded-checked in unit WB)',
           'impl Debug for WBTreeSet', 'Iter and its impls (contract-only here: struct opaque, `next` assumed to obey the protocol laws -- both proved in unit WB)', '#[derive(Clone)] on WBTreeMap (replaced by an assumed structural clone)']

ALLOW_TRUSTED = ['external_body fn clone', 'external_body struct WBTreeMap<V:', 'accept_recursive_types: #[verifier::accept_recursive_types(V)]', 'external_body fn union<F>', 'external_body fn difference<F>', 'global size_of: global size_of usize == 8;',
                 'uninterp fn view', 'uninterp fn wf', 'uninterp fn rem', 'external_body struct Iter<', 'external_body fn next', 'external_body fn iter<'] + ['external_body fn ' + n for n in CORE_DECLS]

SAMPLES = [
    'WBTreeMap::entry(&mut self, key) -> e: Occupied(o) iff key present, o.key == key, o.map is self (prophecy: *final(o.map) == *final(self))',
    'VacantEntry::insert(self, value) -> r: ensures *r == value, final(self.map)@ == old(self.map)@.insert(self.key, *final(r))',
    'WBTreeSet::union(&self, other) -> r: ensures r@ == self@.union(other@)',
    'WBTreeSet::iter() -> it: it.rem() strictly increasing, exactly the elements of the set; first item = minimum; WBTreeSetIter::next obeys the iterator-protocol laws in every state',
]


def api():
    env = {}
    exec(open(os.path.join(HERE, '..', 'annot', 'wbmap_api.py')).read(), env)
    return env


def declaration(item, ret, spec, body='{ unimplemented!() }'):
    """real signature + contract, body replaced by unimplemented!()"""
    item.sig(ret=ret, spec=spec)
    text, segs = item.render()
    # rendered offset of the body brace
    cut = None
    for a, b, origin in segs:
        if origin[0] == 'orig' and origin[1] <= item.body_open < origin[1] + (b - a):
            cut = a + (item.body_open - origin[1])
    assert cut is not None
    return '    #[verifier::external_body]\n    ' + text[:cut] + body + '\n'


def emit(A, repo, canary=False):
    """append the WBTreeMap API (contract-only core + verified entry API + verified set.rs) to assembly A"""
    P = api()
    src = Source(os.path.join(repo, 'eqlog-runtime/src/wbtree/map.rs'))
    ssrc = Source(os.path.join(repo, 'eqlog-runtime/src/wbtree/set.rs'))
    CAN = '\n        assert(false);' if canary else ''

    def fin(it):
        it.attr('#[verifier::spinoff_prover]')
        if canary:
            it._add(it.body_open + 1, 'ins', 0, CAN)
        A.item(it)

    A.text(CORE_STRUCT, 'WBTreeMap declared opaque')
    A.text(ITER_DECL, 'Iter declared opaque')
    A.text(P['ITER_PROTOCOL'], 'IteratorSpecImpl for Iter (ghost; shared text annot/wbmap_api.py)')
    A.text(ITER_NEXT_DECL, 'Iter::next assumed to obey the protocol laws (proved in unit WB)')
    MAP = src.item(r'impl<V: Clone> WBTreeMap<V>\s*\{', name='WBTreeMap')
    A.text(MAP.header(), 'impl WBTreeMap header (from source)')
    A.text(CORE_GHOST, 'WBTreeMap abstract view and invariant (uninterpreted here)')
    for fn in CORE_DECLS:
        ret, spec = P['MAP_ITER'] if fn == 'iter' else P['MAP_CORE'][fn]
        A.text(declaration(src.fn(fn, within=MAP), ret, spec), 'contract-only declaration of WBTreeMap::' + fn)
    it = src.fn('entry', within=MAP)
    it.sig(ret=P['MAP_ENTRY']['entry'][0], spec=P['MAP_ENTRY']['entry'][1])
    fin(it)
    A.text('}\n', 'impl close')
    for pat, nm in ((r'pub enum Entry<', 'Entry'), (r'pub struct OccupiedEntry<', 'OccupiedEntry'), (r'pub struct VacantEntry<', 'VacantEntry')):
        A.item(src.item(pat, name=nm))
    for imp_pat, nm, table in ((r"impl<'a, V: Clone> Entry<'a, V>\s*\{", 'Entry', 'ENTRY'),
                               (r"impl<'a, V: Clone> OccupiedEntry<'a, V>\s*\{", 'OccupiedEntry', 'OCCUPIED'),
                               (r"impl<'a, V: Clone> VacantEntry<'a, V>\s*\{", 'VacantEntry', 'VACANT')):
        imp = src.item(imp_pat, name=nm)
        A.text(imp.header(), 'impl %s header (from source)' % nm)
        if nm != 'Entry':
            A.text(ENTRY_GHOST, 'ghost accessors')
        for fn, (ret, spec) in P[table].items():
            it = src.fn(fn, within=imp)
            it.sig(ret=ret, spec=spec)
            fin(it)
        A.text('}\n', 'impl close')
    A.text('pub mod map { pub use super::{Entry, Iter, OccupiedEntry, VacantEntry, WBTreeMap}; }\n', 'path alias so that `map::Entry` resolves as in the source')
    # ---- set.rs
    A.text(P['SET_VOCAB'], 'set vocabulary')
    A.item(ssrc.item(r'#\[derive\(Clone\)\]\s*pub struct WBTreeSet', name='WBTreeSet'))
    simp = ssrc.item(r'impl WBTreeSet\s*\{', name='WBTreeSet')
    A.text(simp.header(), 'impl WBTreeSet header (from source)')
    A.text(SET_GHOST, 'WBTreeSet view')
    for fn, (ret, spec) in P['SET'].items():
        it = ssrc.fn(fn, within=simp)
        it.sig(ret=ret, spec=spec)
        if fn == 'union':
            it.closure('|_element, (), ()|', '|_element: &u32, _u0: (), _u1: ()| -> (cr: ())', 'ensures true,')
            it.tail('proof { assert(r__.map@.dom() =~= self.map@.dom().union(other.map@.dom())); }')
        if fn == 'difference':
            it.closure('|_element, (), ()|', '|_element: &u32, _u0: (), _u1: ()| -> (cr: Option<()>)', 'ensures cr is None,')
            it.tail('''proof {
            assert forall|x: u32| self.map@.contains_key(x) && other.map@.contains_key(x) implies !r__.map@.contains_key(x) by {
            }
            assert(r__.map@.dom() =~= self.map@.dom().difference(other.map@.dom()));
        }''')
        if fn in ('insert', 'remove'):
            it.tail('proof { assert(self.map@.dom() =~= old(self).map@.dom().%s(%svalue)); }' % (fn, '' if fn == 'insert' else '*'))
        if fn == 'clear':
            it.sig(prelude='')  # nothing
        if fn == 'iter':
            it.tail('''proof {
            let m = r__.map_iter.rem();
            assert forall|k: u32| #[trigger] self@.contains(k) implies exists|i: int| 0 <= i < r__.rem().len() && #[trigger] r__.rem()[i] == k by {
                assert(self.map@.contains_key(k));
                let i = choose|i: int| 0 <= i < m.len() && (#[trigger] m[i]).0 == k;
                assert(r__.rem()[i] == k);
            }
            assert forall|i: int| 0 <= i < r__.rem().len() implies self@.contains(#[trigger] r__.rem()[i]) by { assert(self.map@.contains_key(m[i].0)); }
            if r__.rem().len() > 0 {
                assert(self@.contains(r__.rem()[0]));
                assert forall|z: u32| self@.contains(z) implies r__.rem()[0] <= z by {
                    let i = choose|i: int| 0 <= i < r__.rem().len() && #[trigger] r__.rem()[i] == z;
                    if i > 0 { assert(m[0].0 < m[i].0); }
                }
            }
        }''')
        fin(it)
    A.text('}\n', 'impl close')
    # ---- WBTreeSetIter: the real struct, its real `next`, and the protocol view
    A.item(ssrc.item(r"pub struct WBTreeSetIter<'a>", name='WBTreeSetIter'))
    A.text("impl<'a> WBTreeSetIter<'a> {" + P['SETITER_GHOST'] + '}\n', 'WBTreeSetIter ghost members')
    A.text(P['SETITER_PROTOCOL'], 'IteratorSpecImpl for WBTreeSetIter (ghost)')
    sit = ssrc.item(r"impl<'a> Iterator for WBTreeSetIter<'a>\s*\{", name='WBTreeSetIter')
    A.text(sit.header(), 'impl Iterator for WBTreeSetIter header (from source)')
    A.item(ssrc.item(r'type Item = u32;', name='WBTreeSetIter::Item', within=sit))
    it = ssrc.fn('next', within=sit, name='WBTreeSetIter::next')
    it.closure('|(k, _)|', "|p0__: (u32, &'a ())| -> (cr: u32)", 'ensures cr == p0__.0,', pat_var='p0__')
    it.tail('''proof {
            let m0 = old(self).map_iter.rem(); let m1 = self.map_iter.rem();
            assert(old(self).map_iter.remaining().len() == m0.len());
            assert(self.map_iter.remaining().len() == m1.len());
            if m0.len() > 0 {
                assert forall|i: int| 0 <= i < m1.len() && self.map_iter.remaining() == old(self).map_iter.remaining().drop_first() implies m1[i].0 == m0[i + 1].0 by {
                    assert(self.map_iter.remaining()[i] == old(self).map_iter.remaining().drop_first()[i]);
                }
                assert(self.map_iter.remaining() == old(self).map_iter.remaining().drop_first() ==> self.rem() =~= old(self).rem().drop_first());
                assert(old(self).map_iter.remaining()[0].0 == m0[0].0);
            } else {
                assert(self.map_iter.remaining() == old(self).map_iter.remaining() ==> self.rem() =~= old(self).rem());
            }
        }''')
    fin(it)
    A.text('}\n', 'impl close')
    A.text('pub mod set { pub use super::{WBTreeSet, WBTreeSetIter}; }\n', 'path alias')


def build(repo, canary=False):
    A = Assembly(NAME)
    A.text(HEADER, 'header')
    emit(A, repo, canary)
    A.text('} // verus!\nfn main() {}\n', 'footer')
    return A
