# The ONE copy of the contracts of the public WBTreeMap / entry / WBTreeSet API.
#   * unit WB / WBAPI splices them onto the real bodies (proof obligations),
#   * client units (PT) splice them onto the real signatures with the body replaced by
#     `unimplemented!()` (contract-only declarations).
# name -> (return value name or None, contract text)

MAP_CORE = {
    'new': ('r', '''ensures r.wf(), r@ == Map::<u32, V>::empty(),'''),
    'insert': ('r', '''requires old(self).wf(),
        ensures final(self).wf(), final(self)@ == old(self)@.insert(key, value),
            r == (if old(self)@.contains_key(key) { Some(old(self)@[key]) } else { None::<V> }),'''),
    'get': ('r', '''requires self.wf(),
        ensures match r { Some(v) => self@.contains_key(*key) && *v == self@[*key], None => !self@.contains_key(*key) },'''),
    'get_mut': ('r', '''requires old(self).wf(),
        ensures final(self).wf(),
            match r {
                Some(v) => old(self)@.contains_key(*key) && *v == old(self)@[*key] && final(self)@ =~= old(self)@.insert(*key, *final(v)),
                None => !old(self)@.contains_key(*key) && final(self)@ =~= old(self)@,
            },'''),
    'contains_key': ('b', '''requires self.wf(),
        ensures b == self@.contains_key(*key),'''),
    'is_empty': ('b', '''requires self.wf(),
        ensures b == (self@.dom() =~= Set::<u32>::empty()),'''),
    'len': ('n', '''requires self.wf(),
        ensures self@.dom().finite(), n == self@.dom().len(),'''),
    'clear': (None, '''ensures final(self).wf(), final(self)@ == Map::<u32, V>::empty(),'''),
    'remove': ('r', '''requires old(self).wf(),
        ensures final(self).wf(), final(self)@ == old(self)@.remove(*key),
            r == (if old(self)@.contains_key(*key) { Some(old(self)@[*key]) } else { None::<V> }),'''),
    'union': ('r', '''requires self.wf(), other.wf(),
            forall|k: &u32| self@.contains_key(*k) && other@.contains_key(*k) ==> #[trigger] merge.requires((k, self@[*k], other@[*k])),
        ensures r.wf(),
            forall|x: u32| #[trigger] r@.contains_key(x) <==> (self@.contains_key(x) || other@.contains_key(x)),
            forall|x: u32| self@.contains_key(x) && !other@.contains_key(x) ==> #[trigger] r@[x] == self@[x],
            forall|x: u32| !self@.contains_key(x) && other@.contains_key(x) ==> #[trigger] r@[x] == other@[x],
            // both operands are passed to the callback in (left, right) order
            forall|x: u32| self@.contains_key(x) && other@.contains_key(x) ==> merge.ensures((&x, self@[x], other@[x]), #[trigger] r@[x]),'''),
    'difference': ('r', '''requires self.wf(), other.wf(),
            forall|k: &u32| self@.contains_key(*k) && other@.contains_key(*k) ==> #[trigger] diff.requires((k, self@[*k], other@[*k])),
        ensures r.wf(),
            forall|x: u32| #[trigger] r@.contains_key(x) ==> self@.contains_key(x),
            forall|x: u32| #![trigger r@.contains_key(x)] self@.contains_key(x) && !other@.contains_key(x) ==> r@.contains_key(x),
            forall|x: u32| self@.contains_key(x) && !other@.contains_key(x) ==> #[trigger] r@[x] == self@[x],
            forall|x: u32| #![trigger r@.contains_key(x)] self@.contains_key(x) && other@.contains_key(x) ==>
                exists|o: Option<V>| #[trigger] diff.ensures((&x, self@[x], other@[x]), o) && (o is Some <==> r@.contains_key(x)) && (o is Some ==> r@[x] == o->0),'''),
}

# shared iteration.  `rem()` is the (non-prophetic) sequence of items an iterator state will still yield; `remaining()` is the same
# sequence in the vocabulary of vstd's iterator protocol (prophetic, what a `for` loop sees).  Unit WB proves this contract on the real
# `iter`, and proves that the real `Iter::next` obeys the protocol laws in every state; clients (WBAPI, PT) see the contract only.
MAP_ITER = ('it', '''requires self.wf(),
        ensures
            // the iterator will yield exactly the entries of the map, in strictly increasing key order, each once
            it.rem().len() == self@.dom().len(),
            forall|i: int, j: int| 0 <= i < j < it.rem().len() ==> (#[trigger] it.rem()[i]).0 < (#[trigger] it.rem()[j]).0,
            forall|i: int| 0 <= i < it.rem().len() ==> self@.contains_key((#[trigger] it.rem()[i]).0) && self@[it.rem()[i].0] == it.rem()[i].1,
            forall|k: u32| #[trigger] self@.contains_key(k) ==> exists|i: int| 0 <= i < it.rem().len() && (#[trigger] it.rem()[i]).0 == k,
            // the same, in the vocabulary of the iterator protocol
            it.remaining().len() == self@.dom().len(),
            forall|i: int, j: int| 0 <= i < j < it.remaining().len() ==> (#[trigger] it.remaining()[i]).0 < (#[trigger] it.remaining()[j]).0,
            forall|i: int| 0 <= i < it.remaining().len() ==> self@.contains_key((#[trigger] it.remaining()[i]).0) && self@[it.remaining()[i].0] == *it.remaining()[i].1,
            forall|k: u32| #[trigger] self@.contains_key(k) ==> exists|i: int| 0 <= i < it.remaining().len() && (#[trigger] it.remaining()[i]).0 == k,''')

# the protocol view of Iter (same text in the proving unit and in the clients; `rem` is defined in WB and uninterpreted in the clients)
ITER_PROTOCOL = '''
impl<'a, V: Clone> vstd::std_specs::iter::IteratorSpecImpl for Iter<'a, V> {
    // the laws hold in EVERY state of the iterator (also over lazily mapped subtrees), so no well-formedness side condition is needed
    open spec fn obeys_prophetic_iter_laws(&self) -> bool { true }
    closed spec fn remaining(&self) -> Seq<(u32, &'a V)> { Seq::new(self.rem().len(), |i: int| (self.rem()[i].0, &self.rem()[i].1)) }
    open spec fn will_return_none(&self) -> bool { true }
    closed spec fn decrease(&self) -> Option<nat> { Some(self.rem().len()) }
    closed spec fn peek(&self, i: int) -> Option<(u32, &'a V)> { if 0 <= i < self.rem().len() { Some((self.rem()[i].0, &self.rem()[i].1)) } else { None } }
}
'''

# entry API (real text of map.rs, verified on top of MAP_CORE)
ENTRY_INV = '''match e {
            Entry::Occupied(o) => old(self)@.contains_key(key) && o.key() == key && *o.mref() == *old(self) && *final(o.mref()) == *final(self),
            Entry::Vacant(v) => !old(self)@.contains_key(key) && v.key() == key && *v.mref() == *old(self) && *final(v.mref()) == *final(self),
        }'''

MAP_ENTRY = {
    'entry': ('e', '''requires old(self).wf(),
        ensures ''' + ENTRY_INV + ','),
}

ENTRY = {
    'or_insert': ('r', '''requires
            match self { Entry::Occupied(o) => o.mref().wf() && o.mref()@.contains_key(o.key()), Entry::Vacant(v) => v.mref().wf() && !v.mref()@.contains_key(v.key()) },
        ensures
            match self {
                Entry::Occupied(o) => *r == o.mref()@[o.key()] && final(o.mref()).wf() && final(o.mref())@ == o.mref()@.insert(o.key(), *final(r)),
                Entry::Vacant(v) => *r == default && final(v.mref()).wf() && final(v.mref())@ == v.mref()@.insert(v.key(), *final(r)),
            },'''),
    'or_insert_with': ('r', '''requires default.requires(()),
            match self { Entry::Occupied(o) => o.mref().wf() && o.mref()@.contains_key(o.key()), Entry::Vacant(v) => v.mref().wf() && !v.mref()@.contains_key(v.key()) },
        ensures
            match self {
                Entry::Occupied(o) => *r == o.mref()@[o.key()] && final(o.mref()).wf() && final(o.mref())@ == o.mref()@.insert(o.key(), *final(r)),
                Entry::Vacant(v) => default.ensures((), *r) && final(v.mref()).wf() && final(v.mref())@ == v.mref()@.insert(v.key(), *final(r)),
            },'''),
}

OCCUPIED = {
    'into_mut': ('r', '''requires old(self.mref()).wf(), old(self.mref())@.contains_key(self.key()),
        ensures *r == old(self.mref())@[self.key()], final(self.mref()).wf(), final(self.mref())@ == old(self.mref())@.insert(self.key(), *final(r)),'''),
    'get_mut': ('r', '''requires old(self).mref().wf(), old(self).mref()@.contains_key(old(self).key()),
        ensures *r == old(self).mref()@[old(self).key()], final(self).key() == old(self).key(), final(self).mref().wf(),
            final(self).mref()@ == old(self).mref()@.insert(old(self).key(), *final(r)),
            // the entry keeps pointing at the same map (prophecy of the borrowed map is unchanged)
            *final(final(self).mref()) == *final(old(self).mref()),'''),
    'remove': ('r', '''requires old(self.mref()).wf(), old(self.mref())@.contains_key(self.key()),
        ensures r == old(self.mref())@[self.key()], final(self.mref()).wf(), final(self.mref())@ == old(self.mref())@.remove(self.key()),'''),
}

VACANT = {
    'insert': ('r', '''requires old(self.mref()).wf(),
        ensures *r == value, final(self.mref()).wf(), final(self.mref())@ == old(self.mref())@.insert(self.key(), *final(r)),'''),
}

# WBTreeSet (real text of set.rs, verified on top of MAP_CORE with V = ())
SET = {
    'new': ('r', '''ensures r.wf(), r@ == Set::<u32>::empty(),'''),
    'insert': ('b', '''requires old(self).wf(),
        ensures final(self).wf(), final(self)@ == old(self)@.insert(value), b == !old(self)@.contains(value),'''),
    'contains': ('b', '''requires self.wf(),
        ensures b == self@.contains(*value),'''),
    'remove': ('b', '''requires old(self).wf(),
        ensures final(self).wf(), final(self)@ == old(self)@.remove(*value), b == old(self)@.contains(*value),'''),
    'is_empty': ('b', '''requires self.wf(),
        ensures b == (self@ =~= Set::<u32>::empty()),'''),
    'len': ('n', '''requires self.wf(),
        ensures self@.finite(), n == self@.len(),'''),
    'clear': (None, '''ensures final(self).wf(), final(self)@ == Set::<u32>::empty(),'''),
    'union': ('r', '''requires self.wf(), other.wf(),
        ensures r.wf(), r@ == self@.union(other@),'''),
    'difference': ('r', '''requires self.wf(), other.wf(),
        ensures r.wf(), r@ == self@.difference(other@),'''),
    'iter': ('it', '''requires self.wf(),
        ensures
            // yields exactly the elements of the set, in strictly increasing order, each once
            it.rem().len() == self@.len(),
            forall|i: int, j: int| 0 <= i < j < it.rem().len() ==> it.rem()[i] < it.rem()[j],
            forall|i: int| 0 <= i < it.rem().len() ==> self@.contains(#[trigger] it.rem()[i]),
            forall|k: u32| #[trigger] self@.contains(k) ==> exists|i: int| 0 <= i < it.rem().len() && #[trigger] it.rem()[i] == k,
            // hence the first item is the minimum of the set
            it.rem().len() > 0 ==> set_min(self@, it.rem()[0]),
            it.rem().len() == 0 ==> self@ =~= Set::<u32>::empty(),'''),
}

SET_VOCAB = '''
pub open spec fn set_min(s: Set<u32>, y: u32) -> bool { s.contains(y) && forall|z: u32| s.contains(z) ==> y <= z }
'''

# WBTreeSetIter (real text of set.rs): rem() = the keys of the underlying map iterator; next obeys the protocol laws in every state
SETITER_GHOST = '''
    pub closed spec fn rem(&self) -> Seq<u32> { Seq::new(self.map_iter.rem().len(), |i: int| self.map_iter.rem()[i].0) }
'''
SETITER_PROTOCOL = '''
impl<'a> vstd::std_specs::iter::IteratorSpecImpl for WBTreeSetIter<'a> {
    open spec fn obeys_prophetic_iter_laws(&self) -> bool { true }
    closed spec fn remaining(&self) -> Seq<u32> { self.rem() }
    open spec fn will_return_none(&self) -> bool { true }
    closed spec fn decrease(&self) -> Option<nat> { Some(self.rem().len()) }
    closed spec fn peek(&self, i: int) -> Option<u32> { if 0 <= i < self.rem().len() { Some(self.rem()[i]) } else { None } }
}
'''

