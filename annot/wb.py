# Annotation script for unit WB (executed by units/wb.py with I/emit/glue/SPEC and the impl items in scope).
# Every t.sub(old, new): `new` is `old` plus ghost text; kit.extract decomposes it into insertion-only operations.
# ---- DataNode::update_size_internal (lines 23-27)
t=I(DATANODE, 'update_size_internal')
t=t.sub('fn update_size_internal(&mut self) {','''fn update_size_internal(&mut self)
        requires exists|lo: int, hi: int| #[trigger] bst(old(self).left, lo, hi),
                 exists|lo: int, hi: int| #[trigger] bst(old(self).right, lo, hi),
        ensures final(self).size == 1 + nsz(old(self).left) + nsz(old(self).right),
            final(self).left == old(self).left, final(self).right == old(self).right,
            final(self).key == old(self).key, final(self).value == old(self).value,
    {
        proof {
            let (lo, hi) = choose|lo: int, hi: int| #[trigger] bst(self.left, lo, hi);
            lemma_bst_u32(self.left, lo, hi);
            let (lo2, hi2) = choose|lo: int, hi: int| #[trigger] bst(self.right, lo, hi);
            lemma_bst_u32(self.right, lo2, hi2);
        }''')
emit(t)

glue('}', 'impl DataNode close')
glue(NODE.header(), 'impl Node header (from source)')
# ---- new (71-79)
t=I(NODE, 'new')
t=t.sub('fn new(key: u32, value: V) -> Self {','''fn new(key: u32, value: V) -> (res: Self)
        ensures res == Node::Data(DataNode { key, value, left: None, right: None, size: 1 }),
    {''')
emit(t)
# ---- new_data_node (103-118)
t=I(NODE, 'new_data_node')
t=t.sub(''') -> Rc<Node<V>> {''',''') -> (res: Rc<Node<V>>)
        requires exists|lo: int, hi: int| #[trigger] bst(left, lo, hi), exists|lo: int, hi: int| #[trigger] bst(right, lo, hi),
        ensures *res == Node::Data(DataNode { key, value, left, right, size: (1 + nsz(left) + nsz(right)) as usize }),
    {
        proof {
            let (lo, hi) = choose|lo: int, hi: int| #[trigger] bst(left, lo, hi);
            lemma_bst_u32(left, lo, hi);
            let (lo2, hi2) = choose|lo: int, hi: int| #[trigger] bst(right, lo, hi);
            lemma_bst_u32(right, lo2, hi2);
        }''')
emit(t)
# ---- size (132-137)
t=I(NODE, 'size')
t=t.sub('fn size(node: &Option<Rc<Node<V>>>) -> usize {','''fn size(node: &Option<Rc<Node<V>>>) -> (r: usize)
        requires exists|lo: int, hi: int| #[trigger] bst(*node, lo, hi),
        ensures r == nsz(*node),
        decreases *node,
    {''')
t=t.closure('|n|', '|n: &Rc<Node<V>>| -> (r: usize)', 'requires **n is Data, (**n)->Data_0.size == nsz(Some(*n)), ensures r == nsz(Some(*n)),')
emit(t)
# ---- rotate_left (153-195)
t=I(NODE, 'rotate_left')
t=t.sub('fn rotate_left(mut node: Rc<Node<V>>) -> Rc<Node<V>> {','''fn rotate_left(mut node: Rc<Node<V>>) -> (res: Rc<Node<V>>)
        requires tb(Some(node)),
        ensures
            tb(Some(res)),
            view(Some(res)) == view(Some(node)), nsz(Some(res)) == nsz(Some(node)),
            rgt(Some(node)) is Some ==> {
                &&& rgt(Some(res)) == rgt(rgt(Some(node)))
                &&& lft(lft(Some(res))) == lft(Some(node))
                &&& rgt(lft(Some(res))) == lft(rgt(Some(node)))
                &&& is_data(lft(Some(res)))
            },
            rgt(Some(node)) is None ==> res == node,
            (rgt(Some(node)) is Some && bal(lft(Some(node))) && bal(lft(rgt(Some(node)))) && bal(rgt(rgt(Some(node))))
                && wbal(nsz(lft(Some(node))), nsz(lft(rgt(Some(node)))))
                && wbal(nsz(lft(Some(node))) + nsz(lft(rgt(Some(node)))) + 1, nsz(rgt(rgt(Some(node)))))) ==> bal(Some(res)),
    {
        let ghost node0 = node;
        let ghost (glo, ghi) = choose|lo: int, hi: int| #[trigger] bst(Some(node), lo, hi);''')
t=t.sub('''        // Check if right child is a data node''','''        let ghost right0 = right;
        proof { assert(bst(Some(right0), dn(Some(node0)).key as int, ghi)); assert(*right is Data); }
        // Check if right child is a data node''')
t=t.sub('''        data_node.right = right_data.left.take();
        data_node.update_size_internal();''','''        data_node.right = right_data.left.take();
        proof {
            assert(bst(data_node.left, glo, dn(Some(node0)).key as int));
            assert(bst(data_node.right, dn(Some(node0)).key as int, dn(Some(right0)).key as int));
        }
        data_node.update_size_internal();''')
t=t.sub('''        right_data.left = Some(node);
        right_data.update_size_internal();''','''        right_data.left = Some(node);
        proof {
            assert(bst(Some(node), glo, dn(Some(right0)).key as int));
            assert(bst(right_data.right, dn(Some(right0)).key as int, ghi));
        }
        right_data.update_size_internal();
        proof {
            assert(bst(Some(right), glo, ghi));
            assert(view(Some(right)) =~= view(Some(node0))) by {
                let l = dn(Some(node0)).left; let rl = dn(Some(right0)).left; let rr = dn(Some(right0)).right;
                let k = dn(Some(node0)).key; let rk = dn(Some(right0)).key;
                lemma_view_dom(l, glo, k as int); lemma_view_dom(rl, k as int, rk as int); lemma_view_dom(rr, rk as int, ghi);
                assert(view(Some(node0)) == view(l).union_prefer_right(view(Some(right0))).insert(k, dn(Some(node0)).value));
                assert(view(Some(right0)) == view(rl).union_prefer_right(view(rr)).insert(rk, dn(Some(right0)).value));
                assert(view(Some(node)) == view(l).union_prefer_right(view(rl)).insert(k, dn(Some(node0)).value));
                assert(view(Some(right)) == view(Some(node)).union_prefer_right(view(rr)).insert(rk, dn(Some(right0)).value));
            }
            assert(bal(Some(node)) == (wbal(nsz(dn(Some(node0)).left), nsz(dn(Some(right0)).left)) && bal(dn(Some(node0)).left) && bal(dn(Some(right0)).left)));
            assert(bal(Some(right)) == (wbal(nsz(Some(node)), nsz(dn(Some(right0)).right)) && bal(Some(node)) && bal(dn(Some(right0)).right)));
        }''')
emit(t)

# ---- rotate_right (198-239)
t=I(NODE, 'rotate_right')
t=t.sub('fn rotate_right(mut node: Rc<Node<V>>) -> Rc<Node<V>> {','''fn rotate_right(mut node: Rc<Node<V>>) -> (res: Rc<Node<V>>)
        requires tb(Some(node)),
        ensures
            tb(Some(res)),
            view(Some(res)) == view(Some(node)), nsz(Some(res)) == nsz(Some(node)),
            lft(Some(node)) is Some ==> {
                &&& lft(Some(res)) == lft(lft(Some(node)))
                &&& rgt(rgt(Some(res))) == rgt(Some(node))
                &&& lft(rgt(Some(res))) == rgt(lft(Some(node)))
                &&& is_data(rgt(Some(res)))
            },
            lft(Some(node)) is None ==> res == node,
            (lft(Some(node)) is Some && bal(rgt(Some(node))) && bal(rgt(lft(Some(node)))) && bal(lft(lft(Some(node))))
                && wbal(nsz(rgt(lft(Some(node)))), nsz(rgt(Some(node))))
                && wbal(nsz(lft(lft(Some(node)))), nsz(rgt(lft(Some(node)))) + nsz(rgt(Some(node))) + 1)) ==> bal(Some(res)),
    {
        let ghost node0 = node;
        let ghost (glo, ghi) = choose|lo: int, hi: int| #[trigger] bst(Some(node), lo, hi);''')
t=t.sub('''        // Check if left child is a data node''','''        let ghost left0 = left;
        proof { assert(bst(Some(left0), glo, dn(Some(node0)).key as int)); assert(*left is Data); }
        // Check if left child is a data node''')
t=t.sub('''        data_node.left = left_data.right.take();
        data_node.update_size_internal();''','''        data_node.left = left_data.right.take();
        proof {
            assert(bst(data_node.right, dn(Some(node0)).key as int, ghi));
            assert(bst(data_node.left, dn(Some(left0)).key as int, dn(Some(node0)).key as int));
        }
        data_node.update_size_internal();''')
t=t.sub('''        left_data.right = Some(node);
        left_data.update_size_internal();''','''        left_data.right = Some(node);
        proof {
            assert(bst(Some(node), dn(Some(left0)).key as int, ghi));
            assert(bst(left_data.left, glo, dn(Some(left0)).key as int));
        }
        left_data.update_size_internal();
        proof {
            assert(bst(Some(left), glo, ghi));
            assert(view(Some(left)) =~= view(Some(node0))) by {
                let r = dn(Some(node0)).right; let ll = dn(Some(left0)).left; let lr = dn(Some(left0)).right;
                let k = dn(Some(node0)).key; let lk = dn(Some(left0)).key;
                lemma_view_dom(r, k as int, ghi); lemma_view_dom(ll, glo, lk as int); lemma_view_dom(lr, lk as int, k as int);
                assert(view(Some(node0)) == view(Some(left0)).union_prefer_right(view(r)).insert(k, dn(Some(node0)).value));
                assert(view(Some(left0)) == view(ll).union_prefer_right(view(lr)).insert(lk, dn(Some(left0)).value));
                assert(view(Some(node)) == view(lr).union_prefer_right(view(r)).insert(k, dn(Some(node0)).value));
                assert(view(Some(left)) == view(ll).union_prefer_right(view(Some(node))).insert(lk, dn(Some(left0)).value));
            }
            assert(bal(Some(node)) == (wbal(nsz(dn(Some(left0)).right), nsz(dn(Some(node0)).right)) && bal(dn(Some(left0)).right) && bal(dn(Some(node0)).right)));
            assert(bal(Some(left)) == (wbal(nsz(dn(Some(left0)).left), nsz(Some(node))) && bal(dn(Some(left0)).left) && bal(Some(node))));
        }''')
emit(t)

# ---- balance (242-332)
t=I(NODE, 'balance')
t=t.sub('fn balance(mut node: Rc<Node<V>>) -> Rc<Node<V>> {','''fn balance(mut node: Rc<Node<V>>) -> (res: Rc<Node<V>>)
        requires tb(Some(node)),
            bal(lft(Some(node))), bal(rgt(Some(node))),
        ensures
            tb(Some(res)),
            view(Some(res)) == view(Some(node)), nsz(Some(res)) == nsz(Some(node)),
            rot_ok_t(Some(node)) ==> bal(Some(res)),
    {
        let ghost node0 = node;
        let ghost (glo, ghi) = choose|lo: int, hi: int| #[trigger] bst(Some(node), lo, hi);
        proof { lemma_bst_u32(Some(node), glo, ghi); assert(is_data(Some(node))); 
                assert(bst(lft(Some(node)), glo, dn(Some(node)).key as int)); assert(bst(rgt(Some(node)), dn(Some(node)).key as int, ghi)); }''')
t=t.sub('''        if right_weight > DELTA * left_weight {''','''        proof {
            reveal(rot_ok);
            let r = rgt(Some(node0)); let l = lft(Some(node0));
            if r is Some { assert(is_data(r)); assert(bst(lft(r), dn(Some(node0)).key as int, dn(r).key as int)); assert(bst(rgt(r), dn(r).key as int, ghi)); }
            if l is Some { assert(is_data(l)); assert(bst(lft(l), glo, dn(l).key as int)); assert(bst(rgt(l), dn(l).key as int, dn(Some(node0)).key as int)); }
            if r is Some {
                assert(bal(r) == (wbal(nsz(lft(r)), nsz(rgt(r))) && bal(lft(r)) && bal(rgt(r))));
                let rl = lft(r);
                if rl is Some { assert(is_data(rl)); assert(bal(rl) == (wbal(nsz(lft(rl)), nsz(rgt(rl))) && bal(lft(rl)) && bal(rgt(rl)))); }
            }
            if l is Some {
                assert(bal(l) == (wbal(nsz(lft(l)), nsz(rgt(l))) && bal(lft(l)) && bal(rgt(l))));
                let lr = rgt(l);
                if lr is Some { assert(is_data(lr)); assert(bal(lr) == (wbal(nsz(lft(lr)), nsz(rgt(lr))) && bal(lft(lr)) && bal(rgt(lr)))); }
            }
            assert(bal(Some(node0)) == (wbal(nsz(l), nsz(r)) && bal(l) && bal(r)));
        }
        if right_weight > DELTA * left_weight {''')
t=t.sub('''                        data_node.right = data_node.right.take().map(Self::rotate_right);
                    }
''','''                        data_node.right = data_node.right.take().map(Self::rotate_right);
                    }
                    proof {
                        let r0 = rgt(Some(node0)); let r1 = rgt(Some(node));
                        assert(is_data(Some(node)));
                        lemma_view_dom(r0, dn(Some(node0)).key as int, ghi);
                        lemma_tb_bounds(r1, dn(Some(node0)).key as int, ghi);
                        assert(bst(r1, dn(Some(node0)).key as int, ghi));
                        assert(bst(Some(node), glo, ghi));
                        assert(view(Some(node)) == view(Some(node0)));
                        assert(nsz(Some(node)) == nsz(Some(node0)));
                        let rr1 = rgt(r1);
                        assert(is_data(rr1));
                        assert(bal(rr1) == (wbal(nsz(lft(rr1)), nsz(rgt(rr1))) && bal(lft(rr1)) && bal(rgt(rr1))));
                        let l = lft(Some(node0)); let rl = lft(r0); let rr = rgt(r0);
                        reveal(rot_ok);
                    }
''')
t=t.sub('''                        data_node.left = data_node.left.take().map(Self::rotate_left);
                    }
''','''                        data_node.left = data_node.left.take().map(Self::rotate_left);
                    }
                    proof {
                        let l1 = lft(Some(node));
                        assert(is_data(Some(node)));
                        let l0 = lft(Some(node0));
                        lemma_view_dom(l0, glo, dn(Some(node0)).key as int);
                        lemma_tb_bounds(l1, glo, dn(Some(node0)).key as int);
                        assert(bst(l1, glo, dn(Some(node0)).key as int));
                        assert(bst(Some(node), glo, ghi));
                        assert(view(Some(node)) == view(Some(node0)));
                        assert(nsz(Some(node)) == nsz(Some(node0)));
                        let ll1 = lft(l1);
                        assert(is_data(ll1));
                        assert(bal(ll1) == (wbal(nsz(lft(ll1)), nsz(rgt(ll1))) && bal(lft(ll1)) && bal(rgt(ll1))));
                        let r = rgt(Some(node0)); let lr = rgt(l0); let ll = lft(l0);
                        reveal(rot_ok);
                    }
''')
t=t.sub('''                    // Single rotation
                    Self::rotate_left(node)''','''                    // Single rotation
                    proof {
                        let l = lft(Some(node0)); let r = rgt(Some(node0));
                        reveal(rot_ok);
                    }
                    Self::rotate_left(node)''')
t=t.sub('''                    // Single rotation
                    Self::rotate_right(node)''','''                    // Single rotation
                    proof {
                        let l = lft(Some(node0)); let r = rgt(Some(node0));
                        reveal(rot_ok);
                    }
                    Self::rotate_right(node)''')
pass
emit(t)

# ---- insert_simple (336-389)
t=I(NODE, 'insert_simple')
t=t.sub(''') -> (Option<Rc<Node<V>>>, Option<V>) {''',''') -> (res: (Option<Rc<Node<V>>>, Option<V>))
        requires tb(node), bal(node),
        ensures tb(res.0), bal(res.0), res.0 is Some,
            view(res.0) == view(node).insert(key, value),
            res.1 == (if view(node).contains_key(key) { Some(view(node)[key]) } else { None::<V> }),
            nsz(res.0) == nsz(node) + (if view(node).contains_key(key) { 0nat } else { 1nat }),
        decreases node,
    {
        let ghost node0 = node;
        let ghost glo: int = -1; let ghost ghi: int = 0x1_0000_0000;
        proof {
            let (l0, h0) = choose|lo: int, hi: int| #[trigger] bst(node, lo, hi);
            lemma_bst_u32(node, l0, h0);
            lemma_bst_widen(node, if l0 < -1 { -1 } else { l0 }, if h0 > 0x1_0000_0000 { 0x1_0000_0000 } else { h0 }, glo, ghi);
        }''')
t=t.sub('''                return (Some(Rc::new(Node::new(key, value))), None);''','''                proof {
                    assert forall|rc: Rc<Node<V>>| *rc == Node::Data(DataNode { key, value, left: None, right: None, size: 1 })
                        implies #[trigger] tb(Some(rc)) && bal(Some(rc)) && view(Some(rc)) == view(node0).insert(key, value) && nsz(Some(rc)) == 1 by {
                        assert(bst::<V>(None, -1, key as int)); assert(bst::<V>(None, key as int, 0x1_0000_0000));
                        assert(nsz::<V>(None) == 0);
                        assert(bst(Some(rc), -1, 0x1_0000_0000));
                        assert(bal::<V>(None));
                        assert(view::<V>(None) =~= Map::empty());
                        assert(view(Some(rc)) =~= view(node0).insert(key, value));
                    }
                }
                return (Some(Rc::new(Node::new(key, value))), None);''')
t=t.sub('''        let node_mut: &mut Node<V> = Rc::make_mut(&mut node);''','''        proof {
            assert(is_data(node0));
            lemma_view_dom(lft(node0), glo, dn(node0).key as int);
            lemma_view_dom(rgt(node0), dn(node0).key as int, ghi);
            assert(bal(node0) == (wbal(nsz(lft(node0)), nsz(rgt(node0))) && bal(lft(node0)) && bal(rgt(node0))));
            assert(bst(lft(node0), glo, dn(node0).key as int)); assert(bst(rgt(node0), dn(node0).key as int, ghi));
            assert(tb(lft(node0))); assert(tb(rgt(node0)));
        }
        let node_mut: &mut Node<V> = Rc::make_mut(&mut node);''')
t=t.sub('''                data_node.left = new_left;
                data_node.update_size_internal();''','''                data_node.left = new_left;
                proof {
                    lemma_tb_bounds(new_left, if glo < -1 { -1 } else { glo }, dn(node0).key as int);
                    lemma_bst_u32(node0, glo, ghi);
                }
                data_node.update_size_internal();''')
t=t.sub('''                data_node.right = new_right;
                data_node.update_size_internal();''','''                data_node.right = new_right;
                proof {
                    lemma_tb_bounds(new_right, dn(node0).key as int, if ghi > 0x1_0000_0000 { 0x1_0000_0000 } else { ghi });
                    lemma_bst_u32(node0, glo, ghi);
                }
                data_node.update_size_internal();''')
t=t.sub('''        let balanced_node = if old_value.is_none() {''','''        proof {
            lemma_bst_u32(node0, glo, ghi);
            let glo2 = if glo < -1 { -1 } else { glo }; let ghi2: int = if ghi > 0x1_0000_0000 { 0x1_0000_0000 } else { ghi };
            assert(is_data(Some(node)));
            assert(bst(Some(node), glo2, ghi2));
            assert(view(Some(node)) =~= view(node0).insert(key, value));
            assert(bal(lft(Some(node)))); assert(bal(rgt(Some(node))));
            let k0 = dn(node0).key;
            if key < k0 {
                assert(view(node0).contains_key(key) == view(lft(node0)).contains_key(key));
                if view(node0).contains_key(key) { assert(view(node0)[key] == view(lft(node0))[key]); }
            } else if key > k0 {
                assert(!view(lft(node0)).contains_key(key));
                assert(view(node0) == view(lft(node0)).union_prefer_right(view(rgt(node0))).insert(k0, dn(node0).value));
                assert(view(node0).contains_key(key) == view(rgt(node0)).contains_key(key));
                if view(node0).contains_key(key) { assert(view(node0)[key] == view(rgt(node0))[key]); }
            } else {
                assert(view(node0).contains_key(key)); assert(view(node0)[key] == dn(node0).value);
            }
            assert(nsz(Some(node)) == 1 + nsz(lft(Some(node))) + nsz(rgt(Some(node))));
            assert(nsz(node0) == 1 + nsz(lft(node0)) + nsz(rgt(node0)));
            if old_value is None {
                assert(near(nsz(lft(Some(node))), nsz(rgt(Some(node))))) by { reveal(near); }
                assert(tb(Some(node)));
                lemma_near_rot_ok_t(Some(node));
            } else {
                assert(bal(Some(node)) == (wbal(nsz(lft(Some(node))), nsz(rgt(Some(node)))) && bal(lft(Some(node))) && bal(rgt(Some(node)))));
            }
        }
        let balanced_node = if old_value.is_none() {''')
emit(t)

# ---- remove_min (391-440)
t=I(NODE, 'remove_min')
t=t.sub('fn remove_min(mut node: Rc<Node<V>>) -> (u32, V, Option<Rc<Node<V>>>) {','''fn remove_min(mut node: Rc<Node<V>>) -> (res: (u32, V, Option<Rc<Node<V>>>))
        requires tb(Some(node)), bal(Some(node)),
        ensures view(Some(node)).contains_key(res.0), view(Some(node))[res.0] == res.1,
            forall|x: u32| #[trigger] view(Some(node)).contains_key(x) ==> res.0 <= x,
            tb(res.2), bal(res.2), view(res.2) == view(Some(node)).remove(res.0), nsz(res.2) + 1 == nsz(Some(node)),
        decreases Some(node),
    {
        let ghost node0: Tree<V> = Some(node);
        let ghost glo: int = -1; let ghost ghi: int = 0x1_0000_0000;
        proof {
            let (l0, h0) = choose|lo: int, hi: int| #[trigger] bst(node0, lo, hi);
            lemma_bst_u32(node0, l0, h0);
            lemma_bst_widen(node0, if l0 < -1 { -1 } else { l0 }, if h0 > 0x1_0000_0000 { 0x1_0000_0000 } else { h0 }, glo, ghi);
            assert(is_data(node0));
            lemma_view_dom(lft(node0), glo, dn(node0).key as int);
            lemma_view_dom(rgt(node0), dn(node0).key as int, ghi);
            assert(bal(node0) == (wbal(nsz(lft(node0)), nsz(rgt(node0))) && bal(lft(node0)) && bal(rgt(node0))));
            assert(bst(lft(node0), glo, dn(node0).key as int)); assert(bst(rgt(node0), dn(node0).key as int, ghi));
            assert(tb(lft(node0))); assert(tb(rgt(node0)));
            assert(view(node0) == view(lft(node0)).union_prefer_right(view(rgt(node0))).insert(dn(node0).key, dn(node0).value));
            assert(nsz(node0) == 1 + nsz(lft(node0)) + nsz(rgt(node0)));
        }''')
t=t.sub('''                    return (key, value, right);''','''                    proof {
                        assert(view::<V>(None) =~= Map::empty());
                        assert(view(right) =~= view(node0).remove(key));
                    }
                    return (key, value, right);''')
t=t.sub('''            data_node.left = new_left;
            data_node.update_size_internal();''','''            data_node.left = new_left;
            proof { lemma_tb_bounds(new_left, glo, dn(node0).key as int); }
            data_node.update_size_internal();''')
t=t.sub('''        let balanced_node = Self::balance(node);''','''        proof {
            assert(is_data(Some(node)));
            assert(bst(Some(node), glo, ghi));
            assert(view(Some(node)) =~= view(node0).remove(min_key));
            assert(nsz(Some(node)) == 1 + nsz(lft(Some(node))) + nsz(rgt(Some(node))));
            assert(near(nsz(lft(Some(node))), nsz(rgt(Some(node))))) by { reveal(near); }
            assert(tb(Some(node)));
            lemma_near_rot_ok_t(Some(node));
        }
        let balanced_node = Self::balance(node);''')
emit(t)


# ---- remove_existing_node (442-533)
t=I(NODE, 'remove_existing_node')
t=t.sub('fn remove_existing_node(mut node: Rc<Node<V>>, key: &u32) -> (Option<Rc<Node<V>>>, V) {','''fn remove_existing_node(mut node: Rc<Node<V>>, key: &u32) -> (res: (Option<Rc<Node<V>>>, V))
        requires tb(Some(node)), bal(Some(node)), view(Some(node)).contains_key(*key),
        ensures tb(res.0), bal(res.0), view(res.0) == view(Some(node)).remove(*key), res.1 == view(Some(node))[*key],
            nsz(res.0) + 1 == nsz(Some(node)),
        decreases Some(node),
    {
        let ghost node0: Tree<V> = Some(node);
        let ghost glo: int = -1; let ghost ghi: int = 0x1_0000_0000;
        proof {
            let (l0, h0) = choose|lo: int, hi: int| #[trigger] bst(node0, lo, hi);
            lemma_bst_u32(node0, l0, h0);
            lemma_bst_widen(node0, if l0 < -1 { -1 } else { l0 }, if h0 > 0x1_0000_0000 { 0x1_0000_0000 } else { h0 }, glo, ghi);
            assert(is_data(node0));
            lemma_view_dom(lft(node0), glo, dn(node0).key as int);
            lemma_view_dom(rgt(node0), dn(node0).key as int, ghi);
            assert(bal(node0) == (wbal(nsz(lft(node0)), nsz(rgt(node0))) && bal(lft(node0)) && bal(rgt(node0))));
            assert(bst(lft(node0), glo, dn(node0).key as int)); assert(bst(rgt(node0), dn(node0).key as int, ghi));
            assert(tb(lft(node0))); assert(tb(rgt(node0)));
            assert(view(node0) == view(lft(node0)).union_prefer_right(view(rgt(node0))).insert(dn(node0).key, dn(node0).value));
            assert(nsz(node0) == 1 + nsz(lft(node0)) + nsz(rgt(node0)));
            assert(view::<V>(None) =~= Map::empty());
        }''')
# Equal case, two children: after remove_min(right)
t=t.sub('''                                let mut new_data_node = DataNode {''','''                                proof {
                                    lemma_view_dom(Some(right), dn(node0).key as int, ghi);
                                    lemma_tb_bounds(new_right, min_key as int, ghi);
                                    lemma_min_max(Some(left), glo, dn(node0).key as int, glo, min_key as int);
                                    lemma_bst_u32(Some(left), glo, min_key as int); lemma_bst_u32(new_right, min_key as int, ghi);
                                }
                                let mut new_data_node = DataNode {''')
t=t.sub('''                                Some(Self::balance(Rc::new(Node::Data(new_data_node))))''','''                                proof {
                                    assert forall|rc: Rc<Node<V>>| *rc == Node::Data(new_data_node) implies
                                        #[trigger] tb(Some(rc)) && bal(lft(Some(rc))) && bal(rgt(Some(rc))) && view(Some(rc)) =~= view(node0).remove(*key)
                                        && nsz(Some(rc)) + 1 == nsz(node0) && near(nsz(lft(Some(rc))), nsz(rgt(Some(rc)))) by {
                                        assert(bst(Some(rc), glo, ghi));
                                        reveal(near);
                                    }
                                    assert forall|rc: Rc<Node<V>>| *rc == Node::Data(new_data_node) implies
                                        #[trigger] rot_ok_t(Some(rc)) by { assert(tb(Some(rc))); assert(bal(lft(Some(rc))) && bal(rgt(Some(rc)))); lemma_near_rot_ok_t(Some(rc)); }
                                    assert forall|rc: Rc<Node<V>>| *rc == Node::Data(new_data_node) implies
                                        #[trigger] bal(lft(Some(rc))) && bal(rgt(Some(rc))) by { assert(tb(Some(rc))); }
                                }
                                Some(Self::balance(Rc::new(Node::Data(new_data_node))))''')
t=t.sub('''                        return (new_node, value);''','''                        proof {
                            assert(view(new_node) =~= view(node0).remove(*key));
                            assert(bal::<V>(None)); assert(bal(lft(node0))); assert(bal(rgt(node0)));
                            if lft(node0) is None { assert(bal(new_node)); } else if rgt(node0) is None { assert(bal(new_node)); } else { assert(tb(new_node)); assert(nsz(new_node) + 1 == nsz(node0)); assert(bal(new_node)); }
                        }
                        return (new_node, value);''')
# Less
t=t.sub('''                            data_node.left = new_left;
                            data_node.update_size_internal();''','''                            data_node.left = new_left;
                            proof { lemma_tb_bounds(new_left, glo, dn(node0).key as int); }
                            data_node.update_size_internal();
                            proof {
                                assert(is_data(Some(node)));
                                assert(bst(Some(node), glo, ghi));
                                assert(view(Some(node)) =~= view(node0).remove(*key));
                                assert(nsz(Some(node)) == 1 + nsz(lft(Some(node))) + nsz(rgt(Some(node))));
                                assert(near(nsz(lft(Some(node))), nsz(rgt(Some(node))))) by { reveal(near); }
                                assert(tb(Some(node)));
                                lemma_near_rot_ok_t(Some(node));
                            }''')
t=t.sub('''                            data_node.right = new_right;
                            data_node.update_size_internal();''','''                            data_node.right = new_right;
                            proof { lemma_tb_bounds(new_right, dn(node0).key as int, ghi); }
                            data_node.update_size_internal();
                            proof {
                                assert(is_data(Some(node)));
                                assert(bst(Some(node), glo, ghi));
                                assert(view(Some(node)) =~= view(node0).remove(*key));
                                assert(nsz(Some(node)) == 1 + nsz(lft(Some(node))) + nsz(rgt(Some(node))));
                                assert(near(nsz(lft(Some(node))), nsz(rgt(Some(node))))) by { reveal(near); }
                                assert(tb(Some(node)));
                                lemma_near_rot_ok_t(Some(node));
                            }''')
emit(t)


# ---- unwrap_to_data (93-101)
t=I(NODE, 'unwrap_to_data')
t=t.sub('fn unwrap_to_data(node: Rc<Node<V>>) -> DataNode<V> {','''fn unwrap_to_data(node: Rc<Node<V>>) -> (res: DataNode<V>)
        requires tb(Some(node)),
        ensures res == dn(Some(node)),
        decreases Some(node),
    {
        proof { assert(is_data(Some(node))); }''')
emit(t)
# ---- join (566-611)
t=I(NODE, 'join')
t=t.sub('''    ) -> Option<Rc<Node<V>>> {''','''    ) -> (res: Option<Rc<Node<V>>>)
        requires tb(left), bal(left), tb(right), bal(right),
            forall|x: u32| #[trigger] view(left).contains_key(x) ==> x < key,
            forall|x: u32| #[trigger] view(right).contains_key(x) ==> key < x,
        ensures tb(res), bal(res), res is Some,
            view(res) == view(left).union_prefer_right(view(right)).insert(key, value),
            nsz(res) == nsz(left) + nsz(right) + 1,
        decreases nsz(left) + nsz(right),
    {
        let ghost glo: int = -1; let ghost ghi: int = 0x1_0000_0000;
        proof {
            lemma_tb_bounds_u32(left); lemma_tb_bounds_u32(right);
            lemma_tb_bounds(left, glo, key as int); lemma_tb_bounds(right, key as int, ghi);
            lemma_bst_u32(left, glo, key as int); lemma_bst_u32(right, key as int, ghi);
            lemma_bal_unfold(left); lemma_bal_unfold(right);
        }
        let ghost left0 = left; let ghost right0 = right;''')
t=t.sub('''                    let new_left = Self::join(left, key, value, r_left);''','''                    proof { assert(r_left == lft(right0) && r_right == rgt(right0) && r_key == dn(right0).key);
                        assert forall|x: u32| #[trigger] view(r_left).contains_key(x) implies key < x by { assert(view(right0).contains_key(x)); }
                        assert forall|x: u32| #[trigger] view(r_right).contains_key(x) implies key < x by { assert(view(right0).contains_key(x)); }
                        assert(view(right0).contains_key(r_key)); }
                    let new_left = Self::join(left, key, value, r_left);
                    proof {
                        lemma_tb_bounds(new_left, glo, r_key as int);
                        lemma_tb_bounds(r_right, r_key as int, ghi);
                    }''')
t=t.sub('''                    let new_node = Self::new_data_node(r_key, r_value, new_left, r_right);''','''                    let new_node = Self::new_data_node(r_key, r_value, new_left, r_right);
                    proof {
                        assert(bst(Some(new_node), glo, ghi));
                        assert(tb(Some(new_node)));
                        assert(view(Some(new_node)) =~= view(left0).union_prefer_right(view(right0)).insert(key, value));
                        assert(nsz(Some(new_node)) == nsz(left0) + nsz(right0) + 1);
                        lemma_bal_unfold(new_left); lemma_bal_unfold(rgt(new_left)); lemma_bal_unfold(lft(new_left));
                        lemma_join_r_rot_ok(nsz(left0), nsz(r_left), nsz(r_right), nsz(lft(new_left)), nsz(rgt(new_left)),
                            nsz(lft(rgt(new_left))), nsz(rgt(rgt(new_left))),
                            nsz(lft(r_right)), nsz(rgt(r_right)), nsz(lft(lft(r_right))), nsz(rgt(lft(r_right))));
                        assert(rot_ok_t(Some(new_node)));
                    }''')
t=t.sub('''                    let new_right = Self::join(l_right, key, value, right);''','''                    proof { assert(l_left == lft(left0) && l_right == rgt(left0) && l_key == dn(left0).key);
                        assert forall|x: u32| #[trigger] view(l_right).contains_key(x) implies x < key by { assert(view(left0).contains_key(x)); }
                        assert forall|x: u32| #[trigger] view(l_left).contains_key(x) implies x < key by { assert(view(left0).contains_key(x)); }
                        assert(view(left0).contains_key(l_key)); }
                    let new_right = Self::join(l_right, key, value, right);
                    proof {
                        lemma_tb_bounds(new_right, l_key as int, ghi);
                        lemma_tb_bounds(l_left, glo, l_key as int);
                    }''')
t=t.sub('''                    let new_node = Self::new_data_node(l_key, l_value, l_left, new_right);''','''                    let new_node = Self::new_data_node(l_key, l_value, l_left, new_right);
                    proof {
                        assert(bst(Some(new_node), glo, ghi));
                        assert(tb(Some(new_node)));
                        assert(view(Some(new_node)) =~= view(left0).union_prefer_right(view(right0)).insert(key, value));
                        assert(nsz(Some(new_node)) == nsz(left0) + nsz(right0) + 1);
                        lemma_bal_unfold(new_right); lemma_bal_unfold(rgt(new_right)); lemma_bal_unfold(lft(new_right));
                        lemma_join_l_rot_ok(nsz(right0), nsz(l_right), nsz(l_left), nsz(lft(new_right)), nsz(rgt(new_right)),
                            nsz(lft(lft(new_right))), nsz(rgt(lft(new_right))),
                            nsz(lft(l_left)), nsz(rgt(l_left)), nsz(lft(rgt(l_left))), nsz(rgt(rgt(l_left))));
                        assert(rot_ok_t(Some(new_node)));
                    }''')
t=t.sub('''            let new_node = Self::new_data_node(key, value, left, right);''','''            let new_node = Self::new_data_node(key, value, left, right);
            proof {
                assert(bst(Some(new_node), glo, ghi));
                assert(tb(Some(new_node)));
                assert(nsz(Some(new_node)) == nsz(left0) + nsz(right0) + 1);
                lemma_join_mid_rot_ok(nsz(left0), nsz(right0), nsz(lft(right0)), nsz(rgt(right0)), nsz(lft(lft(right0))), nsz(rgt(lft(right0))),
                    nsz(lft(left0)), nsz(rgt(left0)), nsz(lft(rgt(left0))), nsz(rgt(rgt(left0))));
                assert(rot_ok_t(Some(new_node)));
            }''')
emit(t)


# ---- split (535-564)
t=I(NODE, 'split')
t=t.sub('''    ) -> (Option<Rc<Node<V>>>, Option<V>, Option<Rc<Node<V>>>) {''','''    ) -> (res: (Option<Rc<Node<V>>>, Option<V>, Option<Rc<Node<V>>>))
        requires tb(node), bal(node),
        ensures tb(res.0), bal(res.0), tb(res.2), bal(res.2),
            split_lo(view(node), view(res.0), *key), split_hi(view(node), view(res.2), *key),
            res.1 == (if view(node).contains_key(*key) { Some(view(node)[*key]) } else { None::<V> }),
            nsz(res.0) + nsz(res.2) <= nsz(node),
        decreases node,
    {
        proof { lemma_bal_unfold(node); }
        let ghost node0 = node;''')
t=t.sub('''                        let joined_right = Self::join(new_right, node_key, node_value, right);''','''                        proof {
                            assert forall|x: u32| #[trigger] view(new_right).contains_key(x) implies x < node_key by { assert(view(left).contains_key(x)); }
                        }
                        let joined_right = Self::join(new_right, node_key, node_value, right);
                        proof {
                            assert(split_lo(view(node0), view(new_left), *key));
                            assert(split_hi(view(node0), view(joined_right), *key));
                        }''')
t=t.sub('''                        let joined_left = Self::join(left, node_key, node_value, new_left);''','''                        proof {
                            assert forall|x: u32| #[trigger] view(new_left).contains_key(x) implies node_key < x by { assert(view(right).contains_key(x)); }
                        }
                        let joined_left = Self::join(left, node_key, node_value, new_left);
                        proof {
                            assert(split_lo(view(node0), view(joined_left), *key));
                            assert(split_hi(view(node0), view(new_right), *key));
                        }''')
emit(t)
# ---- join_without_key (722-726)
t=I(NODE, 'join_without_key')
t=t.sub('fn join_without_key(left: Rc<Node<V>>, right: Rc<Node<V>>) -> Option<Rc<Node<V>>> {','''fn join_without_key(left: Rc<Node<V>>, right: Rc<Node<V>>) -> (res: Option<Rc<Node<V>>>)
        requires tb(Some(left)), bal(Some(left)), tb(Some(right)), bal(Some(right)),
            forall|x: u32, y: u32| #[trigger] view(Some(left)).contains_key(x) && #[trigger] view(Some(right)).contains_key(y) ==> x < y,
        ensures tb(res), bal(res), view(res) == view(Some(left)).union_prefer_right(view(Some(right))),
            nsz(res) == nsz(Some(left)) + nsz(Some(right)),
    {''')
t=t.sub('''        Self::join(Some(left), min_key, min_value, new_right)''','''        proof {
            assert forall|x: u32| #[trigger] view(new_right).contains_key(x) implies min_key < x by { assert(view(Some(right)).contains_key(x)); }
            assert(view(Some(left)).union_prefer_right(view(new_right)).insert(min_key, min_value) =~= view(Some(left)).union_prefer_right(view(Some(right))));
        }
        Self::join(Some(left), min_key, min_value, new_right)''')
emit(t)

# ---- union
t=I(NODE, 'union')
t.sig(ret='res', spec='''requires tb(left), bal(left), tb(right), bal(right), req_ok(view(left), view(right), *old(merge)),
        ensures tb(res), bal(res), *final(merge) == *old(merge), is_union(view(left), view(right), view(res), *old(merge)),
        decreases nsz(left) + nsz(right),''', prelude='''proof { lemma_bal_unfold(left); lemma_bal_unfold(right); lemma_tb_bounds_u32(left); lemma_tb_bounds_u32(right); }
        let ghost left0 = left; let ghost right0 = right; let ghost mg = *merge;''')
t.after('let (r_left, r_value_opt, r_right) = Self::split(Some(r), &l_key);', '''proof {
                        let lo: int = -1; let hi: int = 0x1_0000_0000;
                        assert(is_data(left0)); assert(bst(left0, lo, hi));
                        lemma_view_dom(l_left, lo, l_key as int); lemma_view_dom(l_right, l_key as int, hi);
                        assert(tb(l_left)) by { assert(bst(l_left, lo, l_key as int)); }
                        assert(tb(l_right)) by { assert(bst(l_right, l_key as int, hi)); }
                        assert(view(left0) == view(l_left).union_prefer_right(view(l_right)).insert(l_key, l_value));
                        lemma_node_submaps(view(left0), view(l_left), view(l_right), l_key, l_value);
                        lemma_split_submaps(view(right0), view(r_left), view(r_right), l_key);
                        lemma_req_sub(view(left0), view(right0), view(l_left), view(r_left), mg);
                        lemma_req_sub(view(left0), view(right0), view(l_right), view(r_right), mg);
                        if view(right0).contains_key(l_key) { assert(mg.requires((&l_key, view(left0)[l_key], view(right0)[l_key]))); }
                        assert(nsz(l_left) + nsz(l_right) + 1 == nsz(left0));
                    }''')
t.before('                    Self::join(new_left, l_key, new_value, new_right)', '''proof {
                        assert forall|x: u32| #[trigger] view(new_left).contains_key(x) implies x < l_key by { assert(view(l_left).contains_key(x) || view(r_left).contains_key(x)); }
                        assert forall|x: u32| #[trigger] view(new_right).contains_key(x) implies l_key < x by { assert(view(l_right).contains_key(x) || view(r_right).contains_key(x)); }
                        lemma_union_step_left(view(left0), view(right0), view(l_left), view(l_right), l_key, l_value, view(r_left), view(r_right), new_value,
                            view(new_left), view(new_right), view(new_left).union_prefer_right(view(new_right)).insert(l_key, new_value), mg);
                    }''')
t.after('let (l_left, l_value_opt, l_right) = Self::split(Some(l), &r_key);', '''proof {
                        let lo: int = -1; let hi: int = 0x1_0000_0000;
                        assert(is_data(right0)); assert(bst(right0, lo, hi));
                        lemma_view_dom(r_left, lo, r_key as int); lemma_view_dom(r_right, r_key as int, hi);
                        assert(tb(r_left)) by { assert(bst(r_left, lo, r_key as int)); }
                        assert(tb(r_right)) by { assert(bst(r_right, r_key as int, hi)); }
                        assert(view(right0) == view(r_left).union_prefer_right(view(r_right)).insert(r_key, r_value));
                        lemma_node_submaps(view(right0), view(r_left), view(r_right), r_key, r_value);
                        lemma_split_submaps(view(left0), view(l_left), view(l_right), r_key);
                        lemma_req_sub(view(left0), view(right0), view(l_left), view(r_left), mg);
                        lemma_req_sub(view(left0), view(right0), view(l_right), view(r_right), mg);
                        if view(left0).contains_key(r_key) { assert(mg.requires((&r_key, view(left0)[r_key], view(right0)[r_key]))); }
                        assert(nsz(r_left) + nsz(r_right) + 1 == nsz(right0));
                    }''')
t.before('                    Self::join(new_left, r_key, new_value, new_right)', '''proof {
                        assert forall|x: u32| #[trigger] view(new_left).contains_key(x) implies x < r_key by { assert(view(l_left).contains_key(x) || view(r_left).contains_key(x)); }
                        assert forall|x: u32| #[trigger] view(new_right).contains_key(x) implies r_key < x by { assert(view(l_right).contains_key(x) || view(r_right).contains_key(x)); }
                        lemma_union_step_right(view(left0), view(right0), view(r_left), view(r_right), r_key, r_value, view(l_left), view(l_right), new_value,
                            view(new_left), view(new_right), view(new_left).union_prefer_right(view(new_right)).insert(r_key, new_value), mg);
                    }''')
emit(t)

# ---- difference
t=I(NODE, 'difference')
t.sig(ret='res', spec='''requires tb(left), bal(left), tb(right), bal(right), dreq_ok(view(left), view(right), *old(diff)),
        ensures tb(res), bal(res), *final(diff) == *old(diff), is_diff(view(left), view(right), view(res), *old(diff)),
        decreases nsz(left),''', prelude='''proof { lemma_bal_unfold(left); lemma_bal_unfold(right); lemma_tb_bounds_u32(left); lemma_tb_bounds_u32(right); }
        let ghost left0 = left; let ghost right0 = right; let ghost df = *diff;''')
t.after('let (r_left, r_value_opt, r_right) = Self::split(Some(r), &l_key);', '''proof {
                    let lo: int = -1; let hi: int = 0x1_0000_0000;
                    assert(is_data(left0)); assert(bst(left0, lo, hi));
                    lemma_view_dom(l_left, lo, l_key as int); lemma_view_dom(l_right, l_key as int, hi);
                    assert(tb(l_left)) by { assert(bst(l_left, lo, l_key as int)); }
                    assert(tb(l_right)) by { assert(bst(l_right, l_key as int, hi)); }
                    assert(view(left0) == view(l_left).union_prefer_right(view(l_right)).insert(l_key, l_value));
                    lemma_node_submaps(view(left0), view(l_left), view(l_right), l_key, l_value);
                    lemma_split_submaps(view(right0), view(r_left), view(r_right), l_key);
                    lemma_dreq_sub(view(left0), view(right0), view(l_left), view(r_left), df);
                    lemma_dreq_sub(view(left0), view(right0), view(l_right), view(r_right), df);
                    if view(right0).contains_key(l_key) { assert(df.requires((&l_key, view(left0)[l_key], view(right0)[l_key]))); }
                    assert(nsz(l_left) + nsz(l_right) + 1 == nsz(left0));
                }''')
t.after('let new_right = Self::difference(l_right, r_right, diff);', '''proof {
                    assert forall|x: u32| #[trigger] view(new_left).contains_key(x) implies x < l_key by { assert(view(l_left).contains_key(x)); }
                    assert forall|x: u32| #[trigger] view(new_right).contains_key(x) implies l_key < x by { assert(view(l_right).contains_key(x)); }
                }
                let ghost nl = view(new_left); let ghost nr = view(new_right);''')
t.after('''// diff returned None, exclude this key from result
                            None => {''', '''proof {
                                assert forall|res: Map<u32, V>| (forall|x: u32| #[trigger] res.contains_key(x) <==> (nl.contains_key(x) || nr.contains_key(x) || (x == l_key && false))) && (forall|x: u32| nl.contains_key(x) ==> #[trigger] res[x] == nl[x]) && (forall|x: u32| nr.contains_key(x) ==> #[trigger] res[x] == nr[x])  implies #[trigger] is_diff(view(left0), view(right0), res, df) by {
                                    lemma_diff_step(view(left0), view(right0), view(l_left), view(l_right), l_key, l_value, view(r_left), view(r_right), None::<V>, nl, nr, res, df);
                                }
                            }''')
t.wrap('Some(new_value) => ', 'Self::join(new_left, l_key, new_value, new_right)', '''proof {
                                assert forall|res: Map<u32, V>| (forall|x: u32| #[trigger] res.contains_key(x) <==> (nl.contains_key(x) || nr.contains_key(x) || (x == l_key && true))) && (forall|x: u32| nl.contains_key(x) ==> #[trigger] res[x] == nl[x]) && (forall|x: u32| nr.contains_key(x) ==> #[trigger] res[x] == nr[x]) && res[l_key] == new_value implies #[trigger] is_diff(view(left0), view(right0), res, df) by {
                                    lemma_diff_step(view(left0), view(right0), view(l_left), view(l_right), l_key, l_value, view(r_left), view(r_right), Some(new_value), nl, nr, res, df);
                                }
                            }''')
t.wrap('''// Key doesn't exist in right tree, include it in result
                    None => ''', 'Self::join(new_left, l_key, l_value, new_right)', '''proof {
                                assert forall|res: Map<u32, V>| (forall|x: u32| #[trigger] res.contains_key(x) <==> (nl.contains_key(x) || nr.contains_key(x) || (x == l_key && true))) && (forall|x: u32| nl.contains_key(x) ==> #[trigger] res[x] == nl[x]) && (forall|x: u32| nr.contains_key(x) ==> #[trigger] res[x] == nr[x]) && res[l_key] == l_value implies #[trigger] is_diff(view(left0), view(right0), res, df) by {
                                    lemma_diff_step(view(left0), view(right0), view(l_left), view(l_right), l_key, l_value, view(r_left), view(r_right), Some(l_value), nl, nr, res, df);
                                }
                            }''')
emit(t)

glue('}')
SPEC('wb_lemmas2.rs')
SPEC('wb_union.rs')

SPEC('wb_iter.rs')
MAPGLUE()
API = {}
exec(open(__import__('os').path.join(__import__('os').path.dirname(__import__('os').path.abspath(A_FILE)), 'wbmap_api.py')).read(), API)
def M(fn, prelude=''):
    it = I(MAP, fn)
    ret, spec = API['MAP_CORE'][fn]
    it.sig(ret=ret, spec=spec, prelude=prelude)
    return it

t=M('new', 'proof { assert(bst::<V>(None, -1, 0x1_0000_0000)); }')
emit(t)
t=M('insert', 'proof { let (l0, h0) = choose|lo: int, hi: int| #[trigger] bst(self.root, lo, hi); lemma_bst_u32(self.root, l0, h0); }')
emit(t)
t=M('contains_key')
emit(t)
t=M('is_empty', 'proof { lemma_empty_iff_none(self.root); }')
emit(t)
t=M('len', 'proof { let (l0, h0) = choose|lo: int, hi: int| #[trigger] bst(self.root, lo, hi); lemma_view_len(self.root, l0, h0); }')
emit(t)
t=M('clear').after('self.len = 0;', 'proof { assert(bst::<V>(None, -1, 0x1_0000_0000)); assert(view(self.root) =~= Map::<u32, V>::empty()); }')
emit(t)
t=M('remove', 'proof { lemma_empty_iff_none(self.root); }')
t=t.before('let root = self.root.take()', 'proof { assert(self.root is Some) by { if self.root is None { assert(view(self.root) =~= Map::<u32, V>::empty()); } } }')
emit(t)
t=M('union', '''let ghost mg = merge;
        proof { assert forall|a: Rc<Node<V>>, b: Rc<Node<V>>| #[trigger] cloned::<Rc<Node<V>>>(a, b) implies a == b by { lemma_rc_cloned(a, b); } }''').tail('''proof {
            assert(is_union(view(self.root), view(other.root), view(new_root), mg));
            assert forall|x: u32| self@.contains_key(x) && other@.contains_key(x) implies mg.ensures((&x, self@[x], other@[x]), #[trigger] r__@[x]) by {
                assert(merged_by(x, view(self.root)[x], view(other.root)[x], view(new_root)[x], mg));
            }
        }''')
t=t.before('let new_root = Node::union(self.root.clone(), other.root.clone(), &mut merge);', '''proof {
            assert forall|k: &u32| view(self.root).contains_key(*k) && view(other.root).contains_key(*k) implies #[trigger] mg.requires((k, view(self.root)[*k], view(other.root)[*k])) by {
                assert(self@.contains_key(*k) && other@.contains_key(*k));
                assert(merge.requires((k, self@[*k], other@[*k])));
            }
            assert(req_ok(view(self.root), view(other.root), mg));
        }''')
emit(t)
t=M('difference', '''let ghost df = diff;
        proof { assert forall|a: Rc<Node<V>>, b: Rc<Node<V>>| #[trigger] cloned::<Rc<Node<V>>>(a, b) implies a == b by { lemma_rc_cloned(a, b); } }''').tail('''proof {
            assert(is_diff(view(self.root), view(other.root), view(new_root), df));
            assert forall|x: u32| #![trigger self@.contains_key(x), other@.contains_key(x)] self@.contains_key(x) && other@.contains_key(x) implies
                exists|o: Option<V>| #[trigger] df.ensures((&x, self@[x], other@[x]), o) && (o is Some <==> r__@.contains_key(x)) && (o is Some ==> r__@[x] == o->0) by {
                assert(kept_by(x, view(self.root)[x], view(other.root)[x], view(new_root), df));
                let o1 = choose|o1: Option<V>| #[trigger] df.ensures((&x, view(self.root)[x], view(other.root)[x]), o1) && (o1 is Some <==> view(new_root).contains_key(x)) && (o1 is Some ==> view(new_root)[x] == o1->0);
                assert(self@[x] == view(self.root)[x] && other@[x] == view(other.root)[x] && r__@ == view(new_root));
                assert(df.ensures((&x, self@[x], other@[x]), o1) && (o1 is Some <==> r__@.contains_key(x)) && (o1 is Some ==> r__@[x] == o1->0));
            }
        }''')
t=t.before('let new_root = Node::difference(self.root.clone(), other.root.clone(), &mut diff);', '''proof {
            assert forall|k: &u32| view(self.root).contains_key(*k) && view(other.root).contains_key(*k) implies #[trigger] df.requires((k, view(self.root)[*k], view(other.root)[*k])) by {
                assert(self@.contains_key(*k) && other@.contains_key(*k));
                assert(diff.requires((k, self@[*k], other@[*k])));
            }
            assert(dreq_ok(view(self.root), view(other.root), df));
        }''')
emit(t)
t=M('get_mut', 'let ghost root0 = self.root; let ghost len0 = self.len; let ghost k = *key; let ghost fself = *final(self);')
# the ghost capture `fself == *final(self)` is made before the loop; loops are verified in isolation by default and `self` cannot be named
# inside the loop (it is mutably borrowed by the cursor), so the function is verified with loop isolation off
t.attr('#[verifier::loop_isolation(false)]')
t.loop(1, '''invariant mappings@.len() == 0, tb(*current), bal(*current), tb(root0), bal(root0), len0 == nsz(root0), k == *key,
                view(*current).contains_key(k) == view(root0).contains_key(k),
                view(root0).contains_key(k) ==> view(*current)[k] == view(root0)[k],
                okfin(*current, *final(current), k) ==> (fself.len == len0 && okfin(root0, fself.root, k)
                    && (view(*current).contains_key(k) ==> view(fself.root)[k] == view(*final(current))[k])),
            decreases *current,''')
t.before('            match current {', '''let ghost cur0 = *current; let ghost fcur = *final(current);
            proof { lemma_bal_unfold(cur0); if cur0 is None { lemma_okfin_refl(cur0, k); } }''')
t.after('let node_mut = Rc::make_mut(node);', '''proof {
                        assert(is_data(cur0));
                        assert forall|t2: Tree<V>, side: int, c: Tree<V>| #[trigger] node_with(cur0, t2, side, c) && (side == 0 || side == 1 || side == 2)
                            && (side == 0 ==> k < dn(cur0).key && okfin(lft(cur0), c, k)) && (side == 1 ==> k > dn(cur0).key && okfin(rgt(cur0), c, k)) && (side == 2 ==> k == dn(cur0).key)
                            implies okfin(cur0, t2, k)
                                && (side == 0 && view(lft(cur0)).contains_key(k) ==> view(t2)[k] == view(c)[k])
                                && (side == 1 && view(rgt(cur0)).contains_key(k) ==> view(t2)[k] == view(c)[k])
                                && (side == 2 ==> view(t2)[k] == dn(t2).value) by {
                            lemma_okfin_step(cur0, t2, side, c, k);
                        }
                    }''')
t.wrap('                None => ', 'return None', '''proof { assert(okfin(cur0, fcur, k) ==> fself.len == len0); }''')
t.wrap('Ordering::Equal => ', 'return Some(&mut data_node.value)', '''proof {
                                        assert(node_with(cur0, fcur, 2, None) ==> okfin(cur0, fcur, k));
                                        lemma_okfin_step(cur0, cur0, 2, None, k);
                                    }''')
t.wrap('Ordering::Less => ', 'current = &mut data_node.left', '''proof {
                                        lemma_okfin_refl(lft(cur0), k); lemma_okfin_step(cur0, cur0, 0, lft(cur0), k);
                                        assert(node_with(cur0, fcur, 0, *final(current)));
                                    }''', after=True)
t.wrap('Ordering::Greater => ', 'current = &mut data_node.right', '''proof {
                                        lemma_okfin_refl(rgt(cur0), k); lemma_okfin_step(cur0, cur0, 1, rgt(cur0), k);
                                        assert(node_with(cur0, fcur, 1, *final(current)));
                                    }''', after=True)
emit(t)
t=I(MAP, 'iter')
t.sig(ret=API['MAP_ITER'][0], spec=API['MAP_ITER'][1],
      prelude='''proof {
            let (lo, hi) = choose|lo: int, hi: int| #[trigger] bst(self.root, lo, hi);
            lemma_inorder_view(self.root, lo, hi); lemma_view_len(self.root, lo, hi);
        }''')
t.tail('''proof {
            assert(derefs(r__.current_mappings@) =~= Seq::<PrefixTree2>::empty());
            assert(stack_rem(r__.stack@) =~= Seq::<(u32, V)>::empty());
            assert(r__.rem() =~= inorder_m(self.root, Seq::empty()));
            // the protocol view is the same sequence with the values behind references
            assert forall|i: int| 0 <= i < r__.rem().len() implies (#[trigger] r__.remaining()[i]).0 == r__.rem()[i].0 && *r__.remaining()[i].1 == r__.rem()[i].1 by {}
            assert forall|k: u32| #[trigger] self@.contains_key(k) implies exists|i: int| 0 <= i < r__.remaining().len() && (#[trigger] r__.remaining()[i]).0 == k by {
                let i = choose|i: int| 0 <= i < r__.rem().len() && (#[trigger] r__.rem()[i]).0 == k;
                assert(r__.remaining()[i].0 == k);
            }
        }''')
emit(t)
t=M('get', 'let ghost (glo, ghi) = choose|lo: int, hi: int| #[trigger] bst(self.root, lo, hi);')
t=t.sub('        loop {','''        loop
            invariant mappings@.len() == 0, tb(*current),
                view(*current).contains_key(*key) == self@.contains_key(*key),
                self@.contains_key(*key) ==> view(*current)[*key] == self@[*key],
            decreases *current,
        {''')
t=t.wrap('Some(mk) => ', """                                Ordering::Equal => return Some(&data_node.value),
                            }""", '''proof {
                                    let c = *current; let (lo, hi) = choose|lo: int, hi: int| #[trigger] bst(c, lo, hi);
                                    lemma_view_dom(lft(c), lo, dn(c).key as int); lemma_view_dom(rgt(c), dn(c).key as int, hi);
                                    assert(bst(lft(c), lo, dn(c).key as int)); assert(bst(rgt(c), dn(c).key as int, hi));
                                    assert(view(c) == view(lft(c)).union_prefer_right(view(rgt(c))).insert(dn(c).key, dn(c).value));
                                }''')
emit(t)


glue('}')
SPEC('wb_tail.rs')
# ---- shared iteration: Iter / descend_left / next / WBTreeMap::iter
emit_plain(src.item(r"pub struct Iter<'a, V: Clone>", name='Iter'))
ITER = src.item(r"impl<'a, V: Clone> Iter<'a, V>\s*\{", name='Iter')
glue(ITER.header(), 'impl Iter header (from source)')
glue('''
    /// the items this iterator state will still yield (keys already mapped), in order
    pub closed spec fn rem(&self) -> Seq<(u32, V)> {
        (match self.current { Some(t) => inorder_m(*t, derefs(self.current_mappings@)), None => Seq::empty() }) + stack_rem(self.stack@)
    }
    pub closed spec fn cur_weight(&self) -> nat { match self.current { Some(t) => 2 * nodes(*t) + 1, None => 0 } }
    pub closed spec fn measure(&self) -> nat { self.cur_weight() + stack_nodes(self.stack@) }
''', 'Iter ghost members')
t=I(ITER, 'descend_left')
t.sig(spec='''ensures final(self).current is None, final(self).rem() == old(self).rem(), final(self).measure() <= old(self).measure(),''')
t.loop(1, '''invariant self.rem() == old(self).rem(), self.measure() <= old(self).measure(),
            ensures self.current is None,
            decreases self.cur_weight(),''')
t.before('            match opt_node {', 'let ghost s0 = *self;')
t.after('self.current = Some(&data_node.left);', '''proof {
                        let cm = derefs(s0.current_mappings@);
                        assert(derefs(self.stack@.last().1@) =~= cm);
                        lemma_stack_push(s0.stack@, self.stack@.last());
                        assert(self.stack@ =~= s0.stack@.push(self.stack@.last()));
                        assert(self.rem() =~= s0.rem());
                    }''')
t.after('self.current = Some(&mapping_node.child);', '''proof {
                        assert(derefs(self.current_mappings@) =~= derefs(s0.current_mappings@).push(mapping_node.mapping));
                        assert(self.rem() =~= s0.rem());
                    }''')
t.before('                    return;', '''proof { assert(self.rem() =~= s0.rem()); }''')
emit(t)
glue('}', 'impl close')
glue(API['ITER_PROTOCOL'], 'IteratorSpecImpl for Iter (ghost; shared text annot/wbmap_api.py)')
ITN = src.item(r"impl<'a, V: Clone> Iterator for Iter<'a, V>\s*\{", name='Iter')
glue(ITN.header(), 'impl Iterator for Iter header (from source)')
emit_plain(src.item(r"type Item = \(u32, &'a V\);", name='Iter::Item', within=ITN))
t=I(ITN, 'next')
t.loop(1, '''invariant self.rem() == old(self).rem(),
            decreases self.measure(),''')
t.after('self.descend_left();', 'let ghost s1 = *self;')
t.after('self.current = Some(&data_node.right);', '''proof {
                    let e = (data_node, mappings);
                    assert(s1.stack@ =~= self.stack@.push(e));
                    lemma_stack_push(self.stack@, e);
                    assert(derefs(self.current_mappings@) =~= derefs(mappings@));
                    assert(s1.rem() =~= opt1(key_m(derefs(mappings@), data_node.key), data_node.value) + self.rem());
                }''')
emit(t)
glue('}', 'impl close')

