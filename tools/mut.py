#!/usr/bin/env python3
"""tools/mut.py <prop> <file-in-repo> <old> <new> [tier]: apply a one-off textual edit to /repo, run the check, revert (git checkout)."""
import subprocess, sys
prop, f, old, new = sys.argv[1:5]
tier = sys.argv[5] if len(sys.argv) > 5 else 'quick'
p = '/repo/' + f
s = open(p).read()
assert s.count(old) >= 1, 'old text not found'
open(p, 'w').write(s.replace(old, new, 1))
try:
    r = subprocess.run(['/verif/bin/check', prop, tier], stdout=subprocess.PIPE, stderr=subprocess.PIPE, text=True)
    print(r.stdout.strip()); print('exit', r.returncode)
    if '-v' in sys.argv: print(r.stderr)
finally:
    subprocess.run(['git', '-C', '/repo', 'checkout', '--', f])
