#!/bin/bash
# tools/seed_try.sh <seed-dir> <prop> [tier]: apply seeded/<dir>/patch.diff to /repo, run the check, undo
d=$1; p=$2; t=${3:-quick}
git -C /repo status --short | grep -v '^??' && { echo "/repo dirty"; exit 9; }
git -C /repo apply "$(realpath $d)/patch.diff" || exit 9
/verif/bin/check $p $t > /tmp/seed_try.out 2> /tmp/seed_try.err; code=$?
git -C /repo checkout -- .
cat /tmp/seed_try.out | cut -c1-500; echo "exit=$code"
