#!/bin/bash
# re-run every claimed check (quick) on the current tree and validate manifest + evidence against the schemas
cd /verif
git -C /repo status --short | grep -v '^??' && { echo "/repo has uncommitted edits"; exit 1; }
python3 -m kit.manifest
for id in $(python3 -c "import json;print(' '.join(c['property_id'] for c in json.load(open('MANIFEST.json'))['checks']))"); do
  if [ -n "$1" ] && [ "$1" != "$id" ]; then continue; fi
  bin/check $id quick 2>/dev/null | tail -3
done
python3-vt - <<'PY'
import json,jsonschema,glob
m=json.load(open('/verif/MANIFEST.json')); jsonschema.validate(m, json.load(open('/root/.vp/MANIFEST.schema.json')))
es=json.load(open('/root/.vp/EVIDENCE.schema.json'))
for c in m['checks']:
    ev=json.load(open(c['evidence_file'])); jsonschema.validate(ev, es)
    cov=ev['coverage']
    assert ev['level']==c['level_claimed']['category'], (c['property_id'], ev['level'])
    if ev['level']=='proof': assert cov['obligations']==cov['discharged']>0, c['property_id']
    print(c['property_id'], 'evidence ok', ev['level'], cov.get('obligations'), cov.get('evaluations'), 'violations', ev.get('violations'))
PY
